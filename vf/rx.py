"""E-RX: exact compilation of Python `re` backtracking semantics into z3 terms (QF_LIA) over a bounded
array of symbolic code points, plus a model of `_ply.lex.Lexer.token` on top of it.

Everything is generic over a *value domain*: `ZDom` (z3 terms) gives the encoding, `CDom` (python values)
gives an ordinary matcher that is used to validate the translator against the running `re` engine.
The regexes are read from the lexer object built by importing /repo at run time - nothing is cached.
"""
import re
import time
import itertools
import random
import re._parser as sp
import re._constants as sc

import sys

import z3

sys.setrecursionlimit(max(sys.getrecursionlimit(), 100000))

MAXCP = 0x10FFFF
FAIL = -1


def isfail(r):
    return isinstance(r, int) and r == FAIL


# ---------------------------------------------------------------------------------------------
# value domains
# ---------------------------------------------------------------------------------------------


class ZDom:
    symbolic = True

    def __init__(self, n, prefix="c", chars=None):
        self.n = n
        self.c = list(chars) if chars is not None else [z3.Int(f"{prefix}{i}") for i in range(n)]

    def ch(self, i):
        return self.c[i]

    def eq(self, a, v):
        if isinstance(a, int):
            return a == v
        return a == v

    def rng(self, a, lo, hi):
        if isinstance(a, int):
            return lo <= a <= hi
        return z3.And(a >= lo, a <= hi)

    def or_(self, xs):
        xs = [x for x in xs if x is not False]
        if any(x is True for x in xs):
            return True
        if not xs:
            return False
        return z3.Or(xs) if len(xs) > 1 else xs[0]

    def and_(self, xs):
        xs = [x for x in xs if x is not True]
        if any(x is False for x in xs):
            return False
        if not xs:
            return True
        return z3.And(xs) if len(xs) > 1 else xs[0]

    def not_(self, a):
        if a is True:
            return False
        if a is False:
            return True
        return z3.Not(a)

    def ite(self, c, a, b):
        if c is True:
            return a
        if c is False:
            return b
        if isinstance(a, int) and isinstance(b, int) and a == b:
            return a
        if isinstance(a, bool) and isinstance(b, bool):
            if a == b:
                return a
            return c if a else z3.Not(c)
        return z3.If(c, a, b)

    def ge0(self, a):
        if isinstance(a, int):
            return a >= 0
        return a >= 0

    def domain_constraints(self, lo=0, hi=MAXCP):
        return [z3.And(ch >= lo, ch <= hi) for ch in self.c]


class CDom:
    symbolic = False

    def __init__(self, s):
        self.s = s
        self.n = len(s)

    def ch(self, i):
        return ord(self.s[i])

    def eq(self, a, v):
        return a == v

    def rng(self, a, lo, hi):
        return lo <= a <= hi

    def or_(self, xs):
        return any(xs)

    def and_(self, xs):
        return all(xs)

    def not_(self, a):
        return not a

    def ite(self, c, a, b):
        return a if c else b

    def ge0(self, a):
        return a >= 0


# ---------------------------------------------------------------------------------------------
# category tables computed from the running re engine
# ---------------------------------------------------------------------------------------------

_CAT = {}


def category_ranges(cat):
    if cat not in _CAT:
        probe = {sc.CATEGORY_DIGIT: r"\d", sc.CATEGORY_SPACE: r"\s", sc.CATEGORY_WORD: r"\w",
                 sc.CATEGORY_NOT_DIGIT: r"\D", sc.CATEGORY_NOT_SPACE: r"\S", sc.CATEGORY_NOT_WORD: r"\W"}[cat]
        pat = re.compile(probe)
        out, start = [], None
        for cp in range(MAXCP + 2):
            ok = cp <= MAXCP and pat.match(chr(cp)) is not None
            if ok and start is None:
                start = cp
            if not ok and start is not None:
                out.append((start, cp - 1))
                start = None
        _CAT[cat] = out
    return _CAT[cat]


# ---------------------------------------------------------------------------------------------
# CPS compiler of the ordered backtracking search
# ---------------------------------------------------------------------------------------------


class Comp:
    """run(cont, i) -> end position of the first successful match found by ordered backtracking, or FAIL."""

    def __init__(self, dom):
        self.d = dom
        self.n = dom.n
        self.memo = {}
        self.tups = {}
        self.items_by_id = {}
        self.keep = []

    # ----- character predicates
    def in_item(self, ch, item):
        op, av = item
        d = self.d
        if op is sc.LITERAL:
            return d.eq(ch, av)
        if op is sc.RANGE:
            return d.rng(ch, av[0], av[1])
        if op is sc.CATEGORY:
            return d.or_([d.rng(ch, lo, hi) if lo != hi else d.eq(ch, lo) for lo, hi in category_ranges(av)])
        raise NotImplementedError(op)

    def pred(self, ch, op, av):
        d = self.d
        if op is sc.LITERAL:
            return d.eq(ch, av)
        if op is sc.NOT_LITERAL:
            return d.not_(d.eq(ch, av))
        if op is sc.ANY:
            return d.not_(d.eq(ch, 10))
        if op is sc.IN:
            items = list(av)
            neg = bool(items) and items[0][0] is sc.NEGATE
            if neg:
                items = items[1:]
            r = d.or_([self.in_item(ch, it) for it in items])
            return d.not_(r) if neg else r
        raise NotImplementedError(op)

    # ----- continuations are nested tuples ("end",) | ("seq", id(items), k, parent) | ("rep", id(node), done, istart, parent)
    def seq(self, src, k, parent):
        ent = self.tups.get(id(src))
        if ent is None:
            items = src if isinstance(src, tuple) else tuple(src)
            ent = (src, items)
            self.tups[id(src)] = ent
            self.items_by_id[id(items)] = items
        return ("seq", id(ent[1]), k, parent)

    def match(self, tree, i, cont=("end",)):
        return self.run(self.seq(tree, 0, cont), i)

    def run(self, cont, i):
        key = (cont, i)
        r = self.memo.get(key)
        if r is None:
            r = self._run(cont, i)
            self.memo[key] = r
        return r

    def _run(self, cont, i):
        d = self.d
        kind = cont[0]
        if kind == "end":
            return i
        if kind == "rep":
            _, nid, done, istart, parent = cont
            node = self.items_by_id[nid]
            if i == istart:
                return self.run(parent, i)  # zero-width iteration ends the loop
            return self.rep(node, done, i, parent)
        _, iid, k, parent = cont
        items = self.items_by_id[iid]
        if k == len(items):
            return self.run(parent, i)
        op, av = items[k]
        nxt = ("seq", iid, k + 1, parent)
        if op in (sc.LITERAL, sc.NOT_LITERAL, sc.ANY, sc.IN):
            if i >= self.n:
                return FAIL
            return d.ite(self.pred(d.ch(i), op, av), self.run(nxt, i + 1), FAIL)
        if op is sc.SUBPATTERN:
            return self.run(self.seq(av[3], 0, nxt), i)
        if op is sc.BRANCH:
            res = FAIL
            for alt in reversed(av[1]):
                r = self.run(self.seq(alt, 0, nxt), i)
                if isfail(r):
                    continue
                res = d.ite(d.ge0(r), r, res)
            return res
        if op in (sc.MAX_REPEAT, sc.MIN_REPEAT):
            node = items[k]
            self.items_by_id[id(node)] = node
            return self.rep(node, 0, i, nxt)
        if op is sc.AT:
            if av is sc.AT_END:
                if i == self.n:
                    return self.run(nxt, i)
                if i == self.n - 1:
                    return d.ite(d.eq(d.ch(i), 10), self.run(nxt, i), FAIL)
                return FAIL
            if av in (sc.AT_BEGINNING, sc.AT_BEGINNING_STRING):
                return self.run(nxt, i) if i == 0 else FAIL
            if av is sc.AT_END_STRING:
                return self.run(nxt, i) if i == self.n else FAIL
            raise NotImplementedError(av)
        if op in (sc.ASSERT, sc.ASSERT_NOT):
            direction, p = av
            if direction != 1:
                raise NotImplementedError("look-behind")
            r = self.run(self.seq(p, 0, ("end",)), i)
            ok = d.ge0(r)
            if op is sc.ASSERT_NOT:
                ok = d.not_(ok)
            return d.ite(ok, self.run(nxt, i), FAIL)
        raise NotImplementedError(op)

    def rep(self, node, done, i, parent):
        d = self.d
        op, (lo, hi, body) = node
        unbounded = hi is sc.MAXREPEAT
        more = FAIL
        if unbounded or done < hi:
            nd = min(done + 1, lo) if unbounded else done + 1
            more = self.run(self.seq(body, 0, ("rep", id(node), nd, i, parent)), i)
        stop = self.run(parent, i) if done >= lo else FAIL
        first, second = (more, stop) if op is sc.MAX_REPEAT else (stop, more)
        if isfail(first):
            return second
        return d.ite(d.ge0(first), first, second)


# ---------------------------------------------------------------------------------------------
# set semantics: all possible end positions + ambiguity (two different ways to consume the same span)
# ---------------------------------------------------------------------------------------------


def OR(xs):
    xs = [x for x in xs if x is not False]
    if any(x is True for x in xs):
        return True
    if not xs:
        return False
    return z3.Or(xs) if len(xs) > 1 else xs[0]


def AND(*xs):
    xs = [x for x in xs if x is not True]
    if any(x is False for x in xs):
        return False
    if not xs:
        return True
    return z3.And(xs) if len(xs) > 1 else xs[0]


def NOT(x):
    if x is True:
        return False
    if x is False:
        return True
    return z3.Not(x)


class Amb:
    """seq(src,k,i) -> ({end: cond}, {end: ambiguity cond}) under language (set) semantics.

    Used (a) to decide membership in a reference grammar (`ends`), (b) to find unbounded repeats that can
    consume one span in two different ways (`stars`), the source of exponential backtracking.
    Only for ZDom.
    """

    def __init__(self, comp):
        self.c = comp
        self.n = comp.n
        self.memo = {}
        self.keep = []
        self.stars = []  # (node, i, e, cond)

    @staticmethod
    def _merge(srcs, amb):
        ends, out = {}, {}
        for e, cs in srcs.items():
            ends[e] = OR(cs)
            pair = [AND(cs[x], cs[y]) for x in range(len(cs)) for y in range(x + 1, len(cs))]
            a = OR(list(amb.get(e, [])) + pair)
            if a is not False:
                out[e] = a
        return ends, out

    def seq(self, src, k, i):
        key = (id(src), k, i)
        r = self.memo.get(key)
        if r is not None:
            return r
        self.keep.append(src)
        items = list(src)
        if k == len(items):
            r = ({i: True}, {})
        else:
            e1, a1 = self.one(items[k], i)
            srcs, amb = {}, {}
            for m, c1 in e1.items():
                e2, a2 = self.seq(src, k + 1, m)
                for e, c2 in e2.items():
                    srcs.setdefault(e, []).append(AND(c1, c2))
                    if m in a1:
                        amb.setdefault(e, []).append(AND(a1[m], c2))
                    if e in a2:
                        amb.setdefault(e, []).append(AND(c1, a2[e]))
            r = self._merge(srcs, amb)
        self.memo[key] = r
        return r

    def one(self, item, i):
        op, av = item
        n = self.n
        if op in (sc.LITERAL, sc.NOT_LITERAL, sc.ANY, sc.IN):
            if i >= n:
                return ({}, {})
            p = self.c.pred(self.c.d.ch(i), op, av)
            if p is False:
                return ({}, {})
            return ({i + 1: p}, {})
        if op is sc.SUBPATTERN:
            return self.seq(av[3], 0, i)
        if op is sc.BRANCH:
            srcs, amb = {}, {}
            for alt in av[1]:
                e, a = self.seq(alt, 0, i)
                for k, c in e.items():
                    srcs.setdefault(k, []).append(c)
                for k, c in a.items():
                    amb.setdefault(k, []).append(c)
            return self._merge(srcs, amb)
        if op in (sc.MAX_REPEAT, sc.MIN_REPEAT):
            lo, hi, body = av
            r = self.rep(item, 0, i)
            if hi is sc.MAXREPEAT:
                for e, c in r[1].items():
                    self.stars.append((item, i, e, c))
            return r
        if op is sc.AT:
            if av is sc.AT_END:
                if i == n:
                    return ({i: True}, {})
                if i == n - 1:
                    return ({i: self.c.d.ch(i) == 10}, {})
                return ({}, {})
            if av in (sc.AT_BEGINNING, sc.AT_BEGINNING_STRING):
                return ({i: True}, {}) if i == 0 else ({}, {})
            raise NotImplementedError(av)
        if op in (sc.ASSERT, sc.ASSERT_NOT):
            e, _ = self.seq(av[1], 0, i)
            anyc = OR(list(e.values()))
            if op is sc.ASSERT_NOT:
                anyc = NOT(anyc)
            if anyc is False:
                return ({}, {})
            return ({i: anyc}, {})
        raise NotImplementedError(op)

    def rep(self, item, done, i):
        op, (lo, hi, body) = item
        unb = hi is sc.MAXREPEAT
        dk = min(done, lo) if unb else done
        key = ("rep", id(item), dk, i)
        r = self.memo.get(key)
        if r is not None:
            return r
        srcs, amb = {}, {}
        if done >= lo:
            srcs.setdefault(i, []).append(True)
        if unb or done < hi:
            be, ba = self.seq(body, 0, i)
            for m, c1 in be.items():
                if m == i:
                    continue
                e2, a2 = self.rep(item, done + 1, m)
                for e, c2 in e2.items():
                    srcs.setdefault(e, []).append(AND(c1, c2))
                    if m in ba:
                        amb.setdefault(e, []).append(AND(ba[m], c2))
                    if e in a2:
                        amb.setdefault(e, []).append(AND(c1, a2[e]))
        r = self._merge(srcs, amb)
        self.memo[key] = r
        return r


def language_ends(comp, pattern, start=0, flags=0):
    """{end: cond} : c[start:end] is in L(pattern) (full-match, language semantics)"""
    tree = sp.parse(pattern, flags)
    amb = Amb(comp)
    amb.keep.append(tree)
    ends, _ = amb.seq(tree, 0, start)
    return ends


# ---------------------------------------------------------------------------------------------
# backtracking step count as a term
# ---------------------------------------------------------------------------------------------


class StepComp(Comp):
    """run2(cont,i) -> (result, steps): steps = character tests + repeat decisions of an engine without memoisation"""

    def __init__(self, dom):
        super().__init__(dom)
        self.m2 = {}

    def run2(self, cont, i):
        key = (cont, i)
        r = self.m2.get(key)
        if r is None:
            r = self._run2(cont, i)
            self.m2[key] = r
        return r

    def _ok(self, r):
        return (r >= 0) if isinstance(r, int) else self.d.ge0(r)

    def _run2(self, cont, i):
        d = self.d
        kind = cont[0]
        if kind == "end":
            return i, 0
        if kind == "rep":
            _, nid, done, istart, parent = cont
            node = self.items_by_id[nid]
            if i == istart:
                return self.run2(parent, i)
            return self.rep2(node, done, i, parent)
        _, iid, k, parent = cont
        items = self.items_by_id[iid]
        if k == len(items):
            return self.run2(parent, i)
        op, av = items[k]
        nxt = ("seq", iid, k + 1, parent)
        if op in (sc.LITERAL, sc.NOT_LITERAL, sc.ANY, sc.IN):
            if i >= self.n:
                return FAIL, 1
            p = self.pred(d.ch(i), op, av)
            r, s = self.run2(nxt, i + 1)
            return d.ite(p, r, FAIL), 1 + d.ite(p, s, 0)
        if op is sc.SUBPATTERN:
            return self.run2(self.seq(av[3], 0, nxt), i)
        if op is sc.BRANCH:
            res, steps = FAIL, 0
            failed_all = True
            for alt in av[1]:
                r, s = self.run2(self.seq(alt, 0, nxt), i)
                steps = steps + d.ite(failed_all, s, 0)
                ok = self._ok(r)
                res = d.ite(AND(failed_all, ok), r, res)
                failed_all = AND(failed_all, NOT(ok))
            return res, steps
        if op in (sc.MAX_REPEAT, sc.MIN_REPEAT):
            node = items[k]
            self.items_by_id[id(node)] = node
            return self.rep2(node, 0, i, nxt)
        if op is sc.AT:
            if av is sc.AT_END:
                if i == self.n:
                    return self.run2(nxt, i)
                if i == self.n - 1:
                    r, s = self.run2(nxt, i)
                    c = d.eq(d.ch(i), 10)
                    return d.ite(c, r, FAIL), 1 + d.ite(c, s, 0)
                return FAIL, 1
            if av in (sc.AT_BEGINNING, sc.AT_BEGINNING_STRING):
                return self.run2(nxt, i) if i == 0 else (FAIL, 1)
            raise NotImplementedError(av)
        if op in (sc.ASSERT, sc.ASSERT_NOT):
            r, s = self.run2(self.seq(av[1], 0, ("end",)), i)
            ok = self._ok(r)
            if op is sc.ASSERT_NOT:
                ok = NOT(ok)
            r2, s2 = self.run2(nxt, i)
            return d.ite(ok, r2, FAIL), s + d.ite(ok, s2, 0)
        raise NotImplementedError(op)

    def rep2(self, node, done, i, parent):
        d = self.d
        op, (lo, hi, body) = node
        unb = hi is sc.MAXREPEAT
        more = (FAIL, 0)
        if unb or done < hi:
            nd = min(done + 1, lo) if unb else done + 1
            more = self.run2(self.seq(body, 0, ("rep", id(node), nd, i, parent)), i)
        stop = self.run2(parent, i) if done >= lo else (FAIL, 0)
        first, second = (more, stop) if op is sc.MAX_REPEAT else (stop, more)
        r1, s1 = first
        r2, s2 = second
        if isfail(r1):
            return r2, 1 + s1 + s2
        ok = self._ok(r1)
        return d.ite(ok, r1, r2), 1 + s1 + d.ite(ok, 0, s2)


# ---------------------------------------------------------------------------------------------
# model of the built PLY lexer
# ---------------------------------------------------------------------------------------------

LIT = 1000  # kind code of a literal character token
ERR = -1  # no rule, not a literal: t_error
EOF = -2


class LexModel:
    """Reads the lexer that `PlyLexer` builds from /repo's source: master regex, rule order, literals, ignore."""

    def __init__(self):
        from cxxheaderparser.lexer import PlyLexer

        self.PlyLexer = PlyLexer
        lx = PlyLexer("f")
        L = lx.lex
        if len(L.lexre) != 1:
            raise NotImplementedError("master regex split into several parts")
        self.master, self.findex = L.lexre[0]
        tree = sp.parse(self.master.pattern, self.master.flags)
        items = list(tree)
        if len(items) != 1 or items[0][0] is not sc.BRANCH:
            # a single rule
            alts = [items]
        else:
            alts = items[0][1][1]
        gnames = {v: k for k, v in self.master.groupindex.items()}
        self.rules = []  # (name, items tuple, group number)
        for a in alts:
            a = tuple(a)
            if not (len(a) == 1 and a[0][0] is sc.SUBPATTERN):
                raise NotImplementedError("unexpected master regex shape")
            g = a[0][1][0]
            self.rules.append((gnames[g], a, g))
        self.name_idx = {nm: i for i, (nm, _, _) in enumerate(self.rules)}
        self.literals = L.lexliterals
        self.ignore = L.lexignore
        self.tree = tree
        # rule -> (has function, token type)
        self.rule_info = {}
        for nm, _, g in self.rules:
            func, ttype = self.findex[g]
            self.rule_info[nm] = (func is not None, ttype)

    def type_of(self, rule_name):
        return self.rule_info[rule_name][1]

    # --- master regex at one position: (rule index or FAIL, end)
    def first_rule(self, comp, i):
        d = comp.d
        rule, end = FAIL, FAIL
        for idx in range(len(self.rules) - 1, -1, -1):
            nm, a, _ = self.rules[idx]
            r = comp.run(comp.seq(a, 0, ("end",)), i)
            if isfail(r):
                continue
            ok = d.ge0(r)
            rule = d.ite(ok, idx, rule)
            end = d.ite(ok, r, end)
        return rule, end

    def is_literal(self, d, ch):
        return d.or_([d.eq(ch, ord(x)) for x in self.literals])

    def is_ignore(self, d, ch):
        return d.or_([d.eq(ch, ord(x)) for x in self.ignore])

    def tok_at(self, comp, i):
        """token matched exactly at position i (no ignore skipping): (kind, end); kind = rule idx | LIT | ERR"""
        d = comp.d
        if i >= comp.n:
            return EOF, i
        rule, end = self.first_rule(comp, i)
        lit = self.is_literal(d, d.ch(i))
        if isfail(rule):
            kind = d.ite(lit, LIT, ERR)
            e = d.ite(lit, i + 1, FAIL)
            return kind, e
        ok = d.ge0(rule)
        kind = d.ite(ok, rule, d.ite(lit, LIT, ERR))
        e = d.ite(ok, end, d.ite(lit, i + 1, FAIL))
        return kind, e

    # --- concrete reference: what the real PLY lexer does on a string (rule-level, via master.match)
    def real_tok_at(self, s, i):
        m = self.master.match(s, i)
        if m:
            g = m.lastindex
            for idx, (nm, _, gg) in enumerate(self.rules):
                if gg == g:
                    return idx, m.end()
            raise AssertionError("lastindex not a rule group")
        if s[i] in self.literals:
            return LIT, i + 1
        return ERR, FAIL


# ---------------------------------------------------------------------------------------------
# translator validation
# ---------------------------------------------------------------------------------------------

ALPHABET = "0x1.eE+-'\"\\uL8/*\n #a_<:&\r"


def test_corpus_snippets(limit=None):
    """C++ snippets of /repo/tests/*.py (string constants assigned to `content`), regenerated every run"""
    import ast
    import glob

    out = []
    for p in sorted(glob.glob("/repo/tests/test_*.py")):
        try:
            tree = ast.parse(open(p).read())
        except Exception:
            continue
        for node in ast.walk(tree):
            if isinstance(node, ast.Assign) and isinstance(node.value, ast.Constant) and isinstance(node.value.value, str):
                if any(isinstance(t, ast.Name) and t.id == "content" for t in node.targets):
                    out.append(node.value.value)
    return out[:limit] if limit else out


_VMODEL = None


def _validate_chunk(job):
    kind, ws = job
    model = _VMODEL
    n = 0
    for w in ws:
        comp = Comp(CDom(w))
        for pos in range(len(w) if kind == "s" else 1):
            got = model.tok_at(comp, pos)
            exp = model.real_tok_at(w, pos)
            if tuple(got) != tuple(exp):
                return n, f"{w!r} at {pos}: model {got} real {exp}"
            n += 1
    return n, None


def validate_translator(model, tier, seed, log=None):
    """Concrete instantiation of the compiler vs the running `re` on (string, position) pairs.

    Returns number of pairs compared; raises HarnessError on the first disagreement.
    """
    from .common import HarnessError

    rnd = random.Random(seed)
    strings = []
    k = 2 if tier == "quick" else 3
    for L in range(1, k + 1):
        strings += ["".join(p) for p in itertools.product(ALPHABET, repeat=L)]
    nrand = 1500 if tier == "quick" else 6000
    for _ in range(nrand):
        strings.append("".join(rnd.choice(ALPHABET) for _ in range(rnd.randint(3, 10))))
    # token texts of the repo's own test inputs: pieces of every snippet around each token start
    snippets = test_corpus_snippets()
    pieces = set()
    for snip in snippets:
        pos = 0
        while pos < len(snip):
            m = model.master.match(snip, pos)
            end = m.end() if m else pos + 1
            pieces.add(snip[pos:min(len(snip), max(end + 1, pos + 1))][:40])
            pos = max(end, pos + 1)
    pieces = sorted(pieces)
    if tier == "quick" and len(pieces) > 1200:
        pieces = rnd.sample(pieces, 1200)
    global _VMODEL
    _VMODEL = model
    import multiprocessing as mp

    jobs = [("p", pieces[i::32]) for i in range(32)] + [("s", strings[i::64]) for i in range(64)]
    with mp.get_context("fork").Pool(min(16, mp.cpu_count())) as pool:
        results = pool.map(_validate_chunk, jobs)
    n = 0
    for cnt, bad in results:
        n += cnt
        if bad:
            raise HarnessError(f"E-RX translator disagrees with re: {bad}")
    return n, len(strings) + len(pieces), len(pieces)


def model_string(m, chars):
    return "".join(chr(ch) if isinstance(ch, int) else chr(m.eval(ch, model_completion=True).as_long()) for ch in chars)


def cvc5_decide(smt2_text, timeout_ms=30000):
    """re-decide an exported query with cvc5 (python API, in process); returns 'sat' / 'unsat' / 'unknown' / 'error:...'"""
    try:
        import cvc5

        slv = cvc5.Solver()
        slv.setOption("tlimit-per", str(timeout_ms))
        slv.setLogic("QF_LIA")
        par = cvc5.InputParser(slv)
        par.setStringInput(cvc5.InputLanguage.SMT_LIB_2_6, smt2_text, "q")
        sm = par.getSymbolManager()
        res = "unknown"
        while True:
            cmd = par.nextCommand()
            if cmd.isNull():
                break
            out = cmd.invoke(slv, sm).strip()
            if out in ("sat", "unsat", "unknown"):
                res = out
        return res
    except Exception as e:  # noqa
        return f"error:{type(e).__name__}:{e}"


class Q:
    """one z3 solver with accounting (push/pop batches); a sample of the queries is exported as SMT-LIB2 and re-decided by cvc5"""

    def __init__(self, timeout_ms=60000, cross=None):
        import os

        self.s = z3.Solver()
        self.s.set("timeout", timeout_ms)
        self.n = 0
        self.secs = 0.0
        self.unknown = 0
        if cross is None:
            cross = int(os.environ.get("VF_CROSS", "4" if os.environ.get("VERIF_TIER", "quick") == "quick" else "16"))
        self.cross_budget = cross
        self.cross_done = 0
        self.cross_disagree = []
        self.cross_secs = 0.0

    def add(self, *cs):
        for c in cs:
            if c is True:
                continue
            if c is False:
                self.s.add(z3.BoolVal(False))
            else:
                self.s.add(c)

    def push(self):
        self.s.push()

    def pop(self):
        self.s.pop()

    def check(self, *extra):
        t = time.perf_counter()
        r = str(self.s.check(*[e for e in extra if e is not True]))
        dt = time.perf_counter() - t
        self.secs += dt
        self.n += 1
        if r == "unknown":
            self.unknown += 1
        # cross-solver diff on a spread-out sample of cheap queries (every 7th until the budget is used)
        if r in ("sat", "unsat") and not extra and self.cross_done < self.cross_budget and self.n % 7 == 3 and dt < 5.0:
            t = time.perf_counter()
            r2 = cvc5_decide(self.s.to_smt2())
            self.cross_secs += time.perf_counter() - t
            self.cross_done += 1
            if r2 in ("sat", "unsat") and r2 != r:
                self.cross_disagree.append((self.n, r, r2))
        return r

    def model(self):
        return self.s.model()

    def to_smt2(self):
        return self.s.to_smt2()

    def report(self, ck, what):
        """fold the cross-solver diff into a Check"""
        if self.cross_done:
            ck.add_queries("cvc5", self.cross_done, self.cross_secs)
            ck.sub(f"cvc5 re-decides a sample of the exported {what} queries", "E-RX", "holds" if not self.cross_disagree else "inconclusive",
                   sampled=self.cross_done, disagreements=len(self.cross_disagree), cvc5_s=round(self.cross_secs, 1),
                   notes=("z3 / cvc5 disagree on queries " + str(self.cross_disagree)) if self.cross_disagree else "")
