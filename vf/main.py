"""Entry point: python -m vf.main <property id> <quick|thorough>"""
import importlib
import os
import sys


def main(argv):
    pid = argv[1].upper()
    tier = argv[2] if len(argv) > 2 else os.environ.get("VERIF_TIER", "quick")
    if tier not in ("quick", "thorough"):
        print("tier must be quick or thorough", file=sys.stderr)
        return 2
    os.environ["VERIF_TIER"] = tier
    from .common import main_wrapper

    mod = importlib.import_module(f"vf.props.{pid.lower()}")
    return main_wrapper(mod.run, pid, tier)


if __name__ == "__main__":
    sys.exit(main(sys.argv))
