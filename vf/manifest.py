"""Regenerates /verif/MANIFEST.json from the table below:  .venv/bin/python -m vf.manifest"""
import json
import os

ROOT = os.path.dirname(os.path.dirname(os.path.abspath(__file__)))

# id -> (category, technique, level text, level note, design ref)
CHECKS = {
    "C05": (
        "model_checking",
        "CrossHair (z3) path exploration of block trees x start-callback decisions on the real CxxParser; oracle = event skeleton derived from the tree",
        "Bounded and exhaustive inside the bound: every block tree up to the stated size, with every distinguishable set of start "
        "callbacks returning False, is run through the real parser and compared with the stream the tree implies; CrossHair reports "
        "'Confirmed over all paths' per shard only when z3 has shown every unexplored branch infeasible.",
        "Bound: <=2 blocks depth 2 with 7 payload rotations (every non-block callback kind is delivered under skipped and unskipped parents) plus <=3 blocks with plain declarations (quick); one more block and depth 3 (thorough); five block spellings. "
        "The parser runs concretely once a path's choices are fixed. Trusted: CrossHair 0.0.110, z3 5.1, the skeleton oracle in vf/blocks.py.",
        "DESIGN.md 3/C05",
    ),
    "C07": (
        "model_checking",
        "regex -> z3 compilation (E-RX) of every token rule of the built PLY lexer: ambiguity-of-repeat and maximal-backtracking-step queries decided by z3 / z3 Optimize; flagged witnesses pumped and timed on the real parse_string",
        "For all strings up to the witness bound z3 shows that no unbounded repeat of any token rule (or auxiliary pattern) can consume a span in two "
        "different ways, and the per-rule maximum of the backtracking step count (an exact linear-arithmetic term) does not triple per two characters; "
        "a sat answer is pumped and only measured exponential growth of the real parser's time is reported. Parser-side nesting families are timed concretely.",
        "Bound: ambiguity witness <=8 (quick) / <=12 (thorough) code points, step maxima for n<=10 / 12; exponential families with longer shortest witnesses are outside. "
        "Trusted: the translator (validated every run against the running re engine on >10^4 (string, position) pairs incl. the test-suite's token texts), z3.",
        "DESIGN.md 3/C07",
    ),
    "C16": (
        "model_checking",
        "regex -> z3 compilation (E-RX) of the built PLY lexer + user-defined-literal fusion; z3 chooses token classes, texts and split points such that the real tokfmt's output re-lexes differently; blocking clauses enumerate all fusing class tuples; every model replayed on LexerTokenStream + tokfmt",
        "For all code-point strings inside the bound z3 decides whether 2..5 stream tokens exist whose formatted concatenation lexes back to a different "
        "(type, text) list; unsat after blocking = the listed class tuples are the complete set of failures inside the bound. The space decision is tabulated "
        "from the real tokfmt (22,500 pairs, 12,000 triples) each run, so a change to the table, the threshold or the loop changes the encoding.",
        "Bound: quick 2 tokens <=4 code points and 3 tokens <=3; thorough 2 tokens <=6, 3 tokens <=5, 4 tokens <=4, 5 tokens <=5. Known findings (D2 families) are matched by class tuple "
        "and still replayed. Two premises of the analysis are decided by CrossHair on the real code: every TokenStream reader hands out stream tokens only (all raw token sequences <=4 / 6 over a stub lexer), and every token list "
        "exposed in a result carries the types the lexer gives its texts - a deviating type is reported when the formatted list does not lex back (26 value positions x 85 expressions + decltype / sizeof... / pragma sources). Trusted: translator (validated every run), z3.",
        "DESIGN.md 3/C16",
    ),
    "C08": (
        "model_checking",
        "regex -> z3 compilation (E-RX) of the built master regex: per-rule verification conditions (non-empty matches, newline containment, reference literal grammars included in the right class under first-match, keywords, maximal munch) decided by z3; CrossHair symbolic execution of every t_* body (symbolic text, symbolic line counter) and of _fill_tokbuf over a stub lexer",
        "Each VC is decided by z3 for all code-point strings up to the bound at a token start with arbitrary right context; the rule functions are confirmed by CrossHair over all paths "
        "for all texts of the rule's language up to the length bound and all line numbers; _fill_tokbuf is confirmed against a reference over all raw token strings up to the bound.",
        "Bound: 6 (quick) / 9 (thorough) code points per VC, rule texts <=5..14 characters (rules whose message formatting forks per text are confirmed over a superset: any text, or an opaque text that can only be formatted), _fill_tokbuf <=4 / <=5 raw tokens over 9 kinds. Literals longer than the bound are covered only "
        "by the inductive shape of the VCs. Reference grammars = C++ lexical grammar restricted to the forms the property lists. Trusted: translator (validated every run), z3, CrossHair.",
        "DESIGN.md 3/C08",
    ),
    "C19": (
        "model_checking",
        "CrossHair (z3 strings) symbolic execution of the real _gcc_filter / _pcpp_filter / _msvc_filter and of the depfile writer with symbolic file names and lazily forked line sequences; name relations found by the solver are replayed through real g++ and pcpp with parse_file",
        "For all main-file names f and marker names g inside the bound (symbolic strings: suffix, prefix, sub-directory, embedded space relations are found by z3, not enumerated) and all line "
        "sequences inside the bound, a content line is kept iff the most recent marker names exactly f; the depfile entries un-escape to exactly the dependency names. 'Confirmed over all paths' per shard.",
        "Bound: |f|<=3, |g|<=4 (quick) / 4, 5 (thorough) over the alphabet {a,b,/,.,space}; 2 / 3 lines after the first marker; one symbolic dependency name <=2 / 3 chars incl. backslash and space; "
        "the lexer's marker rule (t_PP_DIRECTIVE) is run on ALL file names <=7 characters (any characters but quote / newline). "
        "io.StringIO, open and pcpp are stubbed inside the traced harnesses; MSVC is decided at filter level only (cl.exe not installed). CrossHair's negative-slice bug is patched in the runner (vf/chrun.py).",
        "DESIGN.md 3/C19",
    ),
    "C20": (
        "model_checking",
        "CrossHair (z3) symbolic execution of the real parse_file / CxxParser.__init__ with open(), sys.stdin and os.fsdecode stubbed and symbolic path and encoding strings; tools (nondefault_repr, CLI json, SimpleCxxVisitor) compared on a corpus regenerated from /repo/tests; concrete confirmation per encoding",
        "For every path string (str and os.PathLike) and every encoding string or None inside the bound CrossHair confirms over all paths that the file is opened exactly once, in text mode, with that "
        "path and encoding (default utf-8-sig), that '-' reads stdin and opens nothing, and that the result equals parse_string of the content. The tool identities are checked on ~250 regenerated programs.",
        "Bound: paths <=4 chars, encodings <=6 chars, four contents. open/stdin/os.fsdecode are stubs (codecs and OS trusted). eval(nondefault_repr(d)) == d is explored for results holding every string <=2 / 3 code points over 16 code-point classes "
        "(quotes, backslash, controls, Latin-1, BMP, non-BMP, lone surrogate) in every string-bearing field; the other tool comparisons are concrete over the test-suite corpus.",
        "DESIGN.md 3/C20",
    ),
    "C18": (
        "model_checking",
        "CrossHair (z3): the preprocessor-hook contract on the real CxxParser.__init__ / parse_string / parse_file with symbolic filename and content strings and stubbed open(); exhaustive CrossHair exploration of a declaration grammar for the convert_void_to_zero_params and verbose differentials",
        "Hook: confirmed over all paths for all filename and content strings inside the bound and three entry points (called exactly once with exactly those values, nothing opened, result == parse_string(returned)). "
        "Options: every declaration of the grammar (17 forms incl. destructors, conversion operators, friends and extern blocks x parameter-list shapes at every nesting level) is parsed under all option values; result(False) with lone unnamed void lists emptied == result(True), the number of kept lists equals the number written, verbose == default.",
        "Bound: strings <=4 chars; 17 declaration forms, 10 parameter-list shapes, up to two independent lists per declaration. The parser runs concretely per path in the differential harness. `(void x)` / `(const void)` are not generated (unspecified).",
        "DESIGN.md 3/C18",
    ),
    "C10": (
        "model_checking",
        "CrossHair (z3) symbolic execution of the real t_PP_DIRECTIVE / _line_re / current_location for all integers and file names, and of the real LexerTokenStream + CxxParser over a token-replaying stub lexer with symbolic strictly increasing line numbers; enumerated end-to-end preambles through the real lexer",
        "Arithmetic: confirmed over all paths for all physical lines, directive numbers, distances and previous offsets (unbounded integers) and all quoted names inside the bound: one directive step, which is inductive. "
        "Plumbing: for every listed program shape and ALL strictly increasing line assignments every declaration callback carries a location inside its declaration's extent and the file name. "
        "End to end: every preamble (blank lines, comments, continuations, CRLF, #line, # N) x probe (3 declarations, 3 errors) x shift is run through the real lexer and compared with a counting oracle.",
        "Bound: 3 program shapes (all callback kinds with a documented location assignment, incl. operator members), names <=7 chars, <=3 (quick) / 4 (thorough) preamble elements of 13 kinds (incl. blank lines made of blanks). Character-level line counting is C08. "
        "Error-message prefix with symbolic lines is not decidable (f-strings realise symbolic ints): checked end to end only.",
        "DESIGN.md 3/C10",
    ),
    "C04": (
        "model_checking",
        "CrossHair (z3) path exploration of block trees x declaration-kind rotations x raising-callback index on the real CxxParser with a recording visitor; oracles: skeleton derived from the tree, Dyck/parent/state-kind invariants, independent fold vs SimpleCxxVisitor, exception chaining",
        "Bounded and exhaustive inside the bound: every block tree up to the stated size, with declaration slots cycling through every callback kind, and for each of them every callback position at which a visitor may raise (and no fault), "
        "is run through the real parser; 'Confirmed over all paths' per shard means z3 showed every unexplored branch of the choice tree infeasible.",
        "Bound: <=2 blocks depth 2 with 18 payload rotations (quick); thorough adds <=3 blocks depth 3 with every fourth rotation; 7 block spellings. The parser runs concretely per path. State kinds are read from typing.get_type_hints(CxxVisitor). "
        "Trusted: CrossHair, z3, the skeleton and fold oracles (vf/blocks.py, vf/props/c04.py).",
        "DESIGN.md 3/C04",
    ),
    "C03": (
        "model_checking",
        "CrossHair (z3): inductive access / anonymous-id step on the real parser with a symbolic access string and symbolic anon_id from a class head parsed through the public API; exhaustive CrossHair exploration of method-qualifier subsets, constructor/destructor names and contexts, base-clause orders and member sequences against independently built dataclasses",
        "Inductive step: for each of 7 class heads (class keys, bases, template, nesting depth 1-3) x 30 member forms, for ALL access strings (<=9 chars) and ALL anon_id values, every emitted object carries exactly the pre-state access, "
        "a specifier sets it, nested classes use their own default and return to the same outer state object, anonymous types take anon_id+1 shared by all their declarators, and the outer classes continue with their own access - "
        "one step from an arbitrary state covers member sequences of any length. The enumerated harnesses are exhaustive inside their grammars.",
        "Bound: the member / head tables in vf/props/c03.py; sequences <=3 (quick) / 4 (thorough) as cross-check. Lexing in the inductive step is a token replay (stub lexer). Trusted: CrossHair, z3, the expected-object builders.",
        "DESIGN.md 3/C03",
    ),
    "C13": (
        "model_checking",
        "CrossHair (z3) exhaustive exploration of region x bracket-balanced token soups (grammar-generated) on the real parser; oracle: result identical to the empty-region parse, including the declarations that follow",
        "For each of 16 skippable regions (function / method / constructor / operator / template bodies, ctor-initializer arguments, [[ ]] / __attribute__ / __declspec / alignas arguments, static_assert) every "
        "bracket-balanced soup inside the bound is parsed by the real parser; 'Confirmed over all paths' per shard = the bounded soup space was exhausted.",
        "Bound: quick = 17 atoms + 3 bracket kinds up to 2 tokens and a 6-atom core alphabet (incl. '<', '>', a string literal full of brackets) up to 4 tokens; thorough = 3 and 5 tokens. Tokens are blank-separated. "
        "D15 (angle-bracket heuristic of _consume_balanced_tokens) is a known finding matched per region by the defect's own trigger shape (a '>' arrives while a round / square / curly bracket is innermost and a '<' is pending further out) - any other failing content is reported.",
        "DESIGN.md 3/C13",
    ),
    "C14": (
        "model_checking",
        "CrossHair (z3) exhaustive exploration of 26 value-bearing positions (incl. leading / trailing / method requires-clauses) x an 85-expression token grammar and of all token strings through _consume_value_until, on the real parser; oracle: the expression's own token texts minus the documented delimiters, following declaration intact",
        "Every (position, expression) pair and every kernel token string inside the bound is parsed by the real parser and compared with the expression's own token list; "
        "'Confirmed over all paths' = the bounded space was exhausted. Known findings (D5 glued ]] and D16 angle-bracket heuristic) are listed per (position, expression) and are part of the assertion, so any other failing pair is reported.",
        "Bound: 26 positions, 85 expressions, kernel strings <=5 (quick) / 6 (thorough) tokens over 11 kinds. Expected tokens come from lexing the expression alone with the real lexer (lexing is C08), except for literal expressions whose token texts are written by hand. "
        "D23 (requires-clause drops '::'; pinned by a test) and D25 (literal primary rejected) are known findings listed per (position, expression, failure text).",
        "DESIGN.md 3/C14",
    ),
    "C12": (
        "model_checking",
        "CrossHair (z3): inductive inter-declaration step on the real parser with a symbolic anon_id from enclosing states reached through the public API; exhaustive CrossHair exploration of ordered pairs of a 45-form pool (32-form member pool) in 4 (3) contexts: in-process parse(A B) against an identity-aware merge of parse(A), parse(B) taken from fresh interpreters, and of 8 scope equivalences",
        "Inductive step: for every pool form in every context and ALL anon_id values, the state object and visitor are restored, no token is pending, anon_id grew by exactly the number of anonymous types and all emitted ids lie in (anon_id, anon_id+k] - so nothing is retained between declarations and concatenations of any length compose. "
        "Pairs / equivalences: every ordered pair and every (equivalence, form) is parsed by the real parser and compared; 'Confirmed over all paths' = exhausted.",
        "Bound: the pools in vf/props/c12.py; pairs only (longer sequences through the inductive argument). A failing pair is re-judged in a fresh interpreter inside the harness, so only failures the pair causes by itself are reported (history effects are C15). parser.current_namespace is written but never read by the parser and is not asserted.",
        "DESIGN.md 3/C12",
    ),
    "C11": (
        "model_checking",
        "CrossHair (z3) exhaustive exploration of (a) all doc-comment token buffers through the real get_doxygen over a stub lexer and (b) all ordered pairs of declaration kinds x comment arrangements in namespace and class context through parse_string; three-valued oracle written from the statement",
        "Kernel: every token buffer inside the bound is run through the real get_doxygen and compared with 'the documentation comments of the block that immediately precedes the first real token'. "
        "Hand-over: every ordered pair (kind, arrangement) x (kind, arrangement) is parsed and judged: must-be-X / must-be-None / unspecified per declaration plus the universal clauses (no text twice, never a second declarator, nothing across blank line / access specifier / block boundary, plain comments contribute nothing).",
        "Bound: kernel buffers <=5 (quick) / 6 (thorough) tokens over 8 kinds; 13 namespace-level, 10 class-level and 5 enumerator kinds x 14 arrangements, pairs only. Cases the statement leaves open are not asserted (listed in evidence assumptions). D18a/D18b (trailing scan across tokens) are known findings matched by shape.",
        "DESIGN.md 3/C11",
    ),
    "C09": (
        "model_checking",
        "regex -> z3 (E-RX): for solver-chosen token classes a, b and every layout string, lex(a + layout + b) = a, discardables, b; CrossHair (z3) exhaustive exploration of program x token gap x layout (x second gap) through parse_string against the baseline result; comment extents decided by z3 for all strings; directive lines with trailing / inner comments and commented declaration lines before a directive",
        "Layer L: z3 decides for all code-point strings inside the bound that no pair of stream tokens separated by a layout string lexes differently. Layers S+P: every program of the pool, every token gap (from the real lexer's offsets) and every layout string is parsed and compared with the baseline; 'Confirmed over all paths' = exhausted.",
        "Bound: layer L 2 tokens <=3 (quick) / 5 (thorough) code points x 10 layouts; comment extents for all strings of 2..8 / 10 code points; 56 programs x all gaps x 17 layouts (thorough: two gaps at once, the second among the next three gaps). No documentation comments in the programs (C11). D9/D10 (comment at the end of a #pragma / #include line) are known findings.",
        "DESIGN.md 3/C09",
    ),
    "C06": (
        "model_checking",
        "z3 on the E-RX encoding of the built lexer (totality: rule / literal / t_error at every position); CrossHair (z3) on every lexer error rule with symbolic text and line; exhaustive CrossHair exploration of all token sequences over a reduced alphabet computed from parser.py's AST, of rule-breaking constructs x block contexts and of truncations, through parse_string",
        "Lexer: unsat for all code-point strings inside the bound that Lexer.token could reach PLY's internal error branch or make no progress; error rules confirmed over all paths to raise LexError with the token's location. "
        "Tokens: EVERY token sequence inside the bound over one spelling per class of token types parser.py can tell apart (plus compared values and lexer-error spellings) returns or raises CxxParseError with prefix '<file>:<existing line>: ' and a cause - so the except block itself never raises. "
        "Illegal characters: z3 shows that every code point outside the C++ basic source character set enters t_error at a token start and that only literal / comment / directive rules can contain one. "
        "Rejection: 54 rule-breaking constructs in 7 block contexts x 6 #line preambles (the reported file:line must be one a physical line has under a reference reading of the directives); truncation of 56 programs at every token boundary.",
        "Bound: lexer n<=5 (quick) / 8 (thorough) code points; sequences <=2 tokens over the ~100-spelling reduced alphabet and <=3 over a 35-spelling core (thorough: 3 tokens, the third from the core; core 3). Tokens are rendered blank/newline separated. BaseException and resource exhaustion are outside.",
        "DESIGN.md 3/C06",
    ),
    "C15": (
        "model_checking",
        "CrossHair (z3) exhaustive exploration of inputs and ordered input pairs: frame condition (structural fingerprint of every module- and class-level object before/after each parse), history independence against fresh-interpreter baselines, re-entrant parses from inside every callback",
        "(F) for every input of the pool no parse leaves a write in any of the ~530 module/class-level objects (incl. the prototype lexer) - a sufficient condition: a write is reported as a violation only when a later parse of the pool observes it, otherwise as undecided; (H) for ALL ordered pairs (A, B) the outcome of B after A equals its outcome as the first parse of a fresh interpreter; (R) for all pairs, B parsed from inside every callback of A equals its stand-alone outcome and A is unaffected. 'Confirmed over all paths' = the pair space was exhausted.",
        "Bound: pool of 100 valid / invalid / truncated / lexer-error inputs incl. inputs through the pcpp hook; fresh-interpreter outcomes under 3 (quick) / 8 (thorough) PYTHONHASHSEED values must agree; histories of length 2 (longer ones only through (F)). THREAD SCHEDULES ARE NOT EXPLORED - no engine here models Python interleavings; that quantifier is covered only via (F) under the assumption that concurrent reads of unmodified objects are safe in CPython. One concrete 4-thread run is a smoke test, not a verdict.",
        "DESIGN.md 3/C15",
    ),
    "C02": (
        "model_checking",
        "CrossHair (z3) exhaustive exploration of C++-legal type trees x 11 declaration contexts printed by an independent inside-out printer, of ALL declarator token strings against a reference declarator parser, and of template-argument pairs (stream restoration, type/value classification), on the real parser",
        "Every legal tree up to the depth bound in every context must decode to exactly the generator's tree and name; every token string the reference declarator parser accepts must yield its tree; "
        "after every parse the swapped token stream is restored and type-ids are types. 'Confirmed over all paths' = the bounded space was exhausted.",
        "Bound: depth <=2 (quick) / 3 (thorough) over 7 base types and 12 wrappers; token strings <=4 / 5 over 11 token kinds; 29 x 29 template-argument pairs. Member pointers are outside (documented TODO of the parser). "
        "D20 (array / parenthesised type-ids as template arguments) and D22 (nested redundant parentheses) are known findings matched by class.",
        "DESIGN.md 3/C02",
    ),
    "C17": (
        "model_checking",
        "CrossHair (z3) exhaustive exploration of the C02 type-tree space x 6 formatter positions: each tree is formatted by the real format_decl / format / Parameter.format and re-parsed by the real parser; failures minimised by subtree and classified; name / specialization / decltype / value formats on parsed sources",
        "Every C++-legal tree up to the depth bound, in variable, parameter, typedef, alias, template-argument and Parameter position, must re-parse to an equal tree with the same name; 'Confirmed over all paths' = exhausted.",
        "Bound: depth <=2 (quick) / 3 (thorough) over 7 base types and 12 wrappers, one level deeper over int. D26 (sizeof...(Ts) argument also flagged as a pack; pinned by a test) is a known finding. Array / parenthesised type-ids are not re-parsed in template-argument position (parser finding D20 of C02). AnonymousName is outside (documented unstable).",
        "DESIGN.md 3/C17",
    ),
    "C01": (
        "model_checking",
        "CrossHair (z3) exhaustive exploration of an AST-first declaration grammar (8 form families x variations x 9 scopes x 7 ignored decorations; in the thorough tier ordered pairs: every variation next to the first variation of every form, both orders, every scope) on the real parser against independently built ParsedData, plus a type-conformance walk; ParsedTypeModifiers.validate with symbolic booleans",
        "Every program of the grammar inside the bound is parsed by the real parser and must equal the ParsedData built from its abstract syntax (one entry per declarator, in order, in the scope where it was written, same names / types / specifiers / parameters / defaults / template headers / flags), and every object must conform to the published dataclass field types; "
        "validate is confirmed over all paths for all combinations of specifier sets and flags.",
        "Bound: single declarations (quick: reduced variation pools) and ordered pairs (every variation x one representative per form, both orders) (thorough); scope depth <=2; fixed identifier spelling. Expressions inside values are C14, deep declarators C02.",
        "DESIGN.md 3/C01",
    ),
}

NOT_YET = "no check landed yet in this build (planned engine and bounds: DESIGN.md section 3); not claimed until the check runs green"


def main():
    ids = [json.loads(l)["id"] for l in open(os.path.join(ROOT, "properties.jsonl"))]
    checks = []
    for pid in ids:
        if pid not in CHECKS:
            continue
        cat, tech, text, note, ref = CHECKS[pid]
        checks.append(dict(
            property_id=pid,
            quick_cmd=f"bin/check {pid} quick",
            thorough_cmd=f"bin/check {pid} thorough",
            evidence_file=f"/verif/evidence/{pid}.json",
            replay_cmd_template="/verif/.venv/bin/python {path}",
            engine="crosshair+z3" if "CrossHair" in tech else "z3",
            level_claimed=dict(category=cat, text=text, design_ref=ref),
            level_note=note,
            technique=tech,
        ))
    na = []
    try:
        extra = json.load(open(os.path.join(ROOT, "not_applicable.json")))
    except FileNotFoundError:
        extra = {}
    for pid in ids:
        if pid not in CHECKS:
            na.append(dict(property_id=pid, reason=extra.get(pid, NOT_YET)))
    man = dict(
        version=1,
        setup_cmd="sh bin/bootstrap.sh",
        hooks=dict(
            guard="CXXHEADERPARSER_VERIF",
            enable="no source hooks: harnesses subclass / stub at run time (reserved, unused)",
            baseline_off_cmd="cd /repo && /venv/bin/python -m pytest -ra -q -p no:cacheprovider --timeout=900 --continue-on-collection-errors",
            source_commits=[],
            add_only=True,
        ),
        engines=[
            dict(name="E-CH", path="vf/chrun.py", serves_properties=[p for p in ids if p in CHECKS and "CrossHair" in CHECKS[p][1]],
                 kind_free_text="CrossHair 0.0.110 symbolic execution of the Python source with z3, sharded, with path/query accounting"),
            dict(name="E-RX", path="vf/rx.py", serves_properties=[p for p in ids if p in CHECKS and "regex" in CHECKS[p][1]],
                 kind_free_text="exact Python-re -> z3 (QF_LIA) compiler over bounded symbolic code points, built from the lexer object of /repo at run time"),
        ],
        checks=checks,
        not_applicable=na,
        notes="Solver-based checking of the real code (CrossHair / z3 / cvc5). See DESIGN.md. known_findings.json lists genuine defects (known / fixed).",
    )
    with open(os.path.join(ROOT, "MANIFEST.json"), "w") as fp:
        json.dump(man, fp, indent=1)
    import jsonschema

    jsonschema.validate(man, json.load(open("/root/.vp/MANIFEST.schema.json")))
    print("MANIFEST.json written:", len(checks), "checks,", len(na), "not applicable")


if __name__ == "__main__":
    main()
