"""Recorder visitor: every callback of the CxxVisitor protocol is recorded with the state it carried."""
import typing

from cxxheaderparser import visitor as _v

CALLBACKS = [n for n in vars(_v.CxxVisitor) if n.startswith("on_")]
STARTS = {"on_namespace_start", "on_class_start", "on_extern_block_start"}
ENDS = {"on_namespace_end", "on_class_end", "on_extern_block_end"}
END_OF = {"on_namespace_start": "on_namespace_end", "on_class_start": "on_class_end",
          "on_extern_block_start": "on_extern_block_end"}


class Event(typing.NamedTuple):
    name: str
    state: object
    payload: tuple
    location: object
    parent: object


class Recorder:
    """on_* -> append Event; `hook(name, state, payload, index)` may return False (skip) or raise."""

    def __init__(self, hook=None):
        self.events: typing.List[Event] = []
        self.hook = hook

    def __getattr__(self, name):
        if name not in CALLBACKS:
            raise AttributeError(name)

        def cb(state, *payload):
            idx = len(self.events)
            self.events.append(Event(name, state, payload, getattr(state, "location", None),
                                     getattr(state, "parent", None)))
            if self.hook is not None:
                return self.hook(name, state, payload, idx)
            return None

        return cb

    def names(self):
        return [e.name for e in self.events]
