"""Recorder visitor: every callback of the CxxVisitor protocol is recorded with the state it carried."""
import typing

from cxxheaderparser import visitor as _v

CALLBACKS = [n for n in vars(_v.CxxVisitor) if n.startswith("on_")]
STARTS = {"on_namespace_start", "on_class_start", "on_extern_block_start"}
ENDS = {"on_namespace_end", "on_class_end", "on_extern_block_end"}
END_OF = {"on_namespace_start": "on_namespace_end", "on_class_start": "on_class_end",
          "on_extern_block_start": "on_extern_block_end"}


class Event(typing.NamedTuple):
    name: str
    state: object
    payload: tuple
    location: object
    parent: object


class Recorder:
    """on_* -> append Event; `hook(name, state, payload, index)` may return False (skip) or raise."""

    def __init__(self, hook=None):
        self.events: typing.List[Event] = []
        self.hook = hook

    def __getattr__(self, name):
        if name not in CALLBACKS:
            raise AttributeError(name)

        def cb(state, *payload):
            idx = len(self.events)
            self.events.append(Event(name, state, payload, getattr(state, "location", None),
                                     getattr(state, "parent", None)))
            if self.hook is not None:
                return self.hook(name, state, payload, idx)
            return None

        return cb

    def names(self):
        return [e.name for e in self.events]


def same_scope(a, b):
    """the parser is back in the block it was in: same kind of state, same class / namespace, same chain of parents (an
    implementation may rebuild equal state objects, so identity is not required)"""
    while a is not None and b is not None:
        if type(a) is not type(b):
            return False
        if getattr(a, "class_decl", None) != getattr(b, "class_decl", None):
            return False
        if getattr(a, "namespace", None) != getattr(b, "namespace", None):
            return False
        a, b = getattr(a, "parent", None), getattr(b, "parent", None)
    return a is None and b is None
