"""G_blocks: block trees (namespace / extern "C" / class in its three spellings) built from a Chooser.

Shared by C04 (stream well-formedness, fault injection) and C05 (skip pruning).  The builder also returns
the *expected* event skeleton computed from the abstract tree (never by consulting the parser).
"""

NS, EXT, CLS, CLSVAR, TDCLS, INLNS, NESTNS = range(7)
KIND_NAMES = ["namespace", 'extern "C"', "struct", "struct..declarator", "typedef struct", "inline namespace", "namespace a::b"]


class Node:
    def __init__(self, kind, idx, parent):
        self.kind = kind
        self.idx = idx
        self.parent = parent
        self.children = []
        self.items = []  # ("decl", name) | ("block", Node)  in order

    @property
    def is_class(self):
        return self.kind in (CLS, CLSVAR, TDCLS)


def build(ch, max_blocks, max_depth, kinds=(NS, EXT, CLS, CLSVAR, TDCLS), decls=True):
    """Returns (root Node, list of all block Nodes in source order)."""
    root = Node(NS, -1, None)
    blocks = []
    counter = [0]

    def fill(node, depth):
        if decls:
            node.items.append(("decl", f"a{len(blocks)}_{depth}"))
        while len(blocks) < max_blocks and depth < max_depth:
            # allowed child kinds: namespaces/extern only outside classes
            allowed = [k for k in kinds if node is root or not node.is_class or k in (CLS, CLSVAR, TDCLS)]
            if not allowed:
                break
            c = ch.pick(len(allowed) + 1)
            if c == len(allowed):
                break
            child = Node(allowed[c], len(blocks), node)
            blocks.append(child)
            node.children.append(child)
            node.items.append(("block", child))
            fill(child, depth + 1)
            if decls:
                node.items.append(("decl", f"b{child.idx}"))
        return node

    fill(root, 0)
    return root, blocks


def render(node, indent=0):
    """source text of the items of `node` (one item per line, so that line numbers are easy)"""
    out = []
    pad = "  " * indent
    for it in node.items:
        if it[0] == "decl":
            out.append(f"{pad}int {it[1]};")
        else:
            b = it[1]
            k = b.kind
            body = render(b, indent + 1)
            if k == NS:
                out.append(f"{pad}namespace N{b.idx} {{")
                out += body
                out.append(f"{pad}}}")
            elif k == INLNS:
                out.append(f"{pad}inline namespace N{b.idx} {{")
                out += body
                out.append(f"{pad}}}")
            elif k == NESTNS:
                out.append(f"{pad}namespace N{b.idx}::M{b.idx} {{")
                out += body
                out.append(f"{pad}}}")
            elif k == EXT:
                out.append(f'{pad}extern "C" {{')
                out += body
                out.append(f"{pad}}}")
            elif k == CLS:
                out.append(f"{pad}struct S{b.idx} {{")
                out += body
                out.append(f"{pad}}};")
            elif k == CLSVAR:
                out.append(f"{pad}struct S{b.idx} {{")
                out += body
                out.append(f"{pad}}} v{b.idx}, *p{b.idx};")
            elif k == TDCLS:
                out.append(f"{pad}typedef struct {{")
                out += body
                out.append(f"{pad}}} T{b.idx};")
    return out


START_OF = {NS: "on_namespace_start", INLNS: "on_namespace_start", NESTNS: "on_namespace_start",
            EXT: "on_extern_block_start", CLS: "on_class_start", CLSVAR: "on_class_start", TDCLS: "on_class_start"}
END_OF = {"on_namespace_start": "on_namespace_end", "on_extern_block_start": "on_extern_block_end",
          "on_class_start": "on_class_end"}
STARTS = set(END_OF)
ENDS = set(END_OF.values())


def expected_events(node, skipped=frozenset(), out=None):
    """Event skeleton [(callback name, block idx of the state it must carry)] derived from the tree alone.

    `skipped`: set of block idx whose start callback returns False: the start is delivered, nothing inside,
    no end; trailing declarators / typedef names after a skipped class are still delivered.
    """
    if out is None:
        out = [("on_parse_start", -1)]
    in_class = node.is_class and node.idx >= 0
    for it in node.items:
        if it[0] == "decl":
            out.append(("on_class_field" if in_class else "on_variable", node.idx))
        else:
            b = it[1]
            st = START_OF[b.kind]
            out.append((st, b.idx))
            if b.idx not in skipped:
                expected_events(b, skipped, out)
                out.append((END_OF[st], b.idx))
            # what follows the closing brace, delivered to the parent
            if b.kind == CLSVAR:
                n = "on_class_field" if in_class else "on_variable"
                out.append((n, node.idx))
                out.append((n, node.idx))
            elif b.kind == TDCLS:
                out.append(("on_typedef", node.idx))
    return out
