"""G_blocks: block trees (namespace / extern "C" / class in its three spellings) built from a Chooser.

Shared by C04 (stream well-formedness, fault injection) and C05 (skip pruning).  The builder also returns
the *expected* event skeleton computed from the abstract tree (never by consulting the parser).
"""

NS, EXT, CLS, CLSVAR, TDCLS, INLNS, NESTNS, NS_R, NESTNS_R, NS_ANON = range(10)
KIND_NAMES = ["namespace", 'extern "C"', "struct", "struct..declarator", "typedef struct", "inline namespace", "namespace a::b",
              "namespace R (re-opened)", "namespace R::Q (prefix may exist)", "namespace {"]


class Node:
    def __init__(self, kind, idx, parent):
        self.kind = kind
        self.idx = idx
        self.parent = parent
        self.children = []
        self.items = []  # ("decl", name) | ("block", Node)  in order

    @property
    def is_class(self):
        return self.kind in (CLS, CLSVAR, TDCLS)


NS_PAYLOADS = [
    ("int {n};", ["on_variable"]),
    ("void {n}();", ["on_function"]),
    ("typedef int {n};", ["on_typedef"]),
    ("using {n} = int;", ["on_using_alias"]),
    ("enum {n} {{ A{n} }};", ["on_enum"]),
    ("struct {n};", ["on_forward_decl"]),
    ("using namespace {n};", ["on_using_namespace"]),
    ("namespace {n} = x::y;", ["on_namespace_alias"]),
    ("template class {n}<int>;", ["on_template_inst"]),
    ("template <typename T> concept {n} = true;", ["on_concept"]),
    ("{n}(int) -> {n}<int>;", ["on_deduction_guide"]),
    ("void X::{n}() {{}}", ["on_method_impl"]),
    ("#include <{n}.h>", ["on_include"]),
    ("#pragma {n}", ["on_pragma"]),
    ("using x::{n};", ["on_using_declaration"]),
    ("int {n}a, {n}b;", ["on_variable", "on_variable"]),
    ("static_assert(sizeof({n}) > 0, \"m\");", []),
    ("template <typename T> T {n}(T t) {{ return t; }}", ["on_function"]),
]
CLS_PAYLOADS = [
    ("int {n};", ["on_class_field"]),
    ("void {n}();", ["on_class_method"]),
    ("typedef int {n};", ["on_typedef"]),
    ("using {n} = int;", ["on_using_alias"]),
    ("enum {n} {{ A{n} }};", ["on_enum"]),
    ("struct {n};", ["on_forward_decl"]),
    ("friend class {n};", ["on_class_friend"]),
    ("using x::{n};", ["on_using_declaration"]),
    ("public:", []),
    ("friend void {n}();", ["on_class_friend"]),
    ("#pragma {n}", ["on_pragma"]),
    ("static_assert(true);", []),
    ("int {n}a : 2, {n}b;", ["on_class_field", "on_class_field"]),
    ("virtual void {n}() const = 0;", ["on_class_method"]),
    ("operator int();", ["on_class_method"]),
    ("static int {n};", ["on_class_field"]),
    ("template <typename T> void {n}(T) {{}}", ["on_class_method"]),
    ("struct {{ int {n}; }};", ["on_class_start", "on_class_field", "on_class_end", "on_class_field"]),
]


# namespace-scope constructs written inside a class: ill-formed input (mutations); the parser may reject them, but whatever it
# delivers before must still be a well-formed stream
CLS_MISPLACED = [
    "namespace {n} = x::y;", "using namespace {n};", "template class {n}<int>;", "template <typename T> concept {n} = true;",
    "{n}(int) -> {n}<int>;", "void X::{n}() {{}}", "extern template class {n}<int>;",
]


ANON_PAYLOAD_OK = True


def payload_of(node, name, payload, slot):
    """(source line, [callback names]) of the declaration in slot `slot` (payload None: plain int)"""
    in_class = node.is_class and node.idx >= 0
    table = CLS_PAYLOADS if in_class else NS_PAYLOADS
    if payload is None:
        k = 0
    else:
        k = (payload + slot) % len(table)
    text, cbs = table[k]
    if not ANON_PAYLOAD_OK and len(cbs) == 4:
        text, cbs = table[0]  # C05: the anonymous-struct payload would add a start callback of its own
    return text.format(n=name), cbs


def build(ch, max_blocks, max_depth, kinds=(NS, EXT, CLS, CLSVAR, TDCLS), decls=True, payload=None):
    """Returns (root Node, list of all block Nodes in source order).  payload: None = plain int declarations,
    an int p = declaration kinds (p + slot) taken round-robin from NS_PAYLOADS / CLS_PAYLOADS."""
    root = Node(NS, -1, None)
    root.payload = payload
    blocks = []
    counter = [0]

    def fill(node, depth):
        node.payload = payload
        if decls:
            node.items.append(("decl", f"a{len(blocks)}_{depth}"))
        while len(blocks) < max_blocks and depth < max_depth:
            # allowed child kinds: namespaces/extern only outside classes
            allowed = [k for k in kinds if node is root or not node.is_class or k in (CLS, CLSVAR, TDCLS)]
            if not allowed:
                break
            c = ch.pick(len(allowed) + 1)
            if c == len(allowed):
                break
            child = Node(allowed[c], len(blocks), node)
            child.slot0 = len(blocks) + 1
            blocks.append(child)
            node.children.append(child)
            node.items.append(("block", child))
            fill(child, depth + 1)
            if decls:
                node.items.append(("decl", f"b{child.idx}"))
        return node

    fill(root, 0)
    return root, blocks


def render(node, indent=0):
    """source text of the items of `node` (one item per line, so that line numbers are easy)"""
    out = []
    pad = "  " * indent
    slot = getattr(node, "slot0", 0)
    for it in node.items:
        if it[0] == "decl":
            text, _ = payload_of(node, it[1], getattr(node, "payload", None), slot)
            slot += 1
            out.append(f"{pad}{text}")
        else:
            b = it[1]
            k = b.kind
            body = render(b, indent + 1)
            if k == NS:
                out.append(f"{pad}namespace N{b.idx} {{")
                out += body
                out.append(f"{pad}}}")
            elif k == INLNS:
                out.append(f"{pad}inline namespace N{b.idx} {{")
                out += body
                out.append(f"{pad}}}")
            elif k == NESTNS:
                out.append(f"{pad}namespace N{b.idx}::M{b.idx} {{")
                out += body
                out.append(f"{pad}}}")
            elif k in (NS_R, NESTNS_R, NS_ANON):
                out.append(pad + {NS_R: "namespace R {", NESTNS_R: "namespace R::Q {", NS_ANON: "namespace {"}[k])
                out += body
                out.append(f"{pad}}}")
            elif k == EXT:
                out.append(f'{pad}extern "C" {{')
                out += body
                out.append(f"{pad}}}")
            elif k == CLS:
                out.append(f"{pad}struct S{b.idx} {{")
                out += body
                out.append(f"{pad}}};")
            elif k == CLSVAR:
                out.append(f"{pad}struct S{b.idx} {{")
                out += body
                out.append(f"{pad}}} v{b.idx}, *p{b.idx};")
            elif k == TDCLS:
                out.append(f"{pad}typedef struct {{")
                out += body
                out.append(f"{pad}}} T{b.idx};")
    return out


START_OF = {NS: "on_namespace_start", INLNS: "on_namespace_start", NESTNS: "on_namespace_start",
            NS_R: "on_namespace_start", NESTNS_R: "on_namespace_start", NS_ANON: "on_namespace_start",
            EXT: "on_extern_block_start", CLS: "on_class_start", CLSVAR: "on_class_start", TDCLS: "on_class_start"}
END_OF = {"on_namespace_start": "on_namespace_end", "on_extern_block_start": "on_extern_block_end",
          "on_class_start": "on_class_end"}
STARTS = set(END_OF)
ENDS = set(END_OF.values())


def expected_events(node, skipped=frozenset(), out=None):
    """Event skeleton [(callback name, block idx of the state it must carry)] derived from the tree alone.

    `skipped`: set of block idx whose start callback returns False: the start is delivered, nothing inside,
    no end; trailing declarators / typedef names after a skipped class are still delivered.
    """
    if out is None:
        out = [("on_parse_start", -1)]
    in_class = node.is_class and node.idx >= 0
    slot = getattr(node, "slot0", 0)
    for it in node.items:
        if it[0] == "decl":
            _, cbs = payload_of(node, it[1], getattr(node, "payload", None), slot)
            slot += 1
            if cbs == ["on_class_start", "on_class_field", "on_class_end", "on_class_field"]:
                # anonymous struct member: its own (anonymous) block state, then the promoted field in the parent
                out.append(("on_class_start", ("anon", node.idx, slot)))
                out.append(("on_class_field", ("anon", node.idx, slot)))
                out.append(("on_class_end", ("anon", node.idx, slot)))
                out.append(("on_class_field", node.idx))
                continue
            for cb in cbs:
                out.append((cb, node.idx))
        else:
            b = it[1]
            st = START_OF[b.kind]
            out.append((st, b.idx))
            if b.idx not in skipped:
                expected_events(b, skipped, out)
                out.append((END_OF[st], b.idx))
            # what follows the closing brace, delivered to the parent
            if b.kind == CLSVAR:
                n = "on_class_field" if in_class else "on_variable"
                out.append((n, node.idx))
                out.append((n, node.idx))
            elif b.kind == TDCLS:
                out.append(("on_typedef", node.idx))
    return out
