"""Layer-S/P stub: a stand-in for PlyLexer that replays raw PLY tokens (obtained by really lexing a text once,
concretely) while reporting *symbolic* line numbers, plugged into a REAL LexerTokenStream / CxxParser.

The real `_fill_tokbuf`, doxygen scans, token_if* helpers and the whole parser run on these tokens; only the
character-level lexing (decided by E-RX elsewhere) is replaced.
"""
from collections import deque


class RawTok:
    __slots__ = ("type", "value", "lineno", "lexpos", "location", "after")

    def __init__(self, type_, value, lineno, lexpos, after):
        self.type = type_
        self.value = value
        self.lineno = lineno
        self.lexpos = lexpos
        self.after = after  # physical line number the real lexer is on after this token

    def __repr__(self):
        return f"<{self.type} {self.value!r} @{self.lineno}>"


def raw_tokens(text, filename="f.h"):
    """really lex `text` (PlyLexer, concrete): list of (type, value, lineno, lexpos, lineno_after)"""
    from cxxheaderparser.lexer import PlyLexer

    lx = PlyLexer(filename)
    lx.input(text)
    out = []
    while True:
        t = lx.token()
        if t is None:
            break
        out.append((t.type, t.value, t.lineno, t.lexpos, lx.lex.lineno))
    return out


class StubPly:
    """token() replays the raw tokens; current_location() maps the physical line to `linemap[line]`"""

    def __init__(self, raws, filename, linemap):
        self.raws = raws
        self.i = 0
        self.filename = filename
        self.linemap = linemap
        self.cur = 1

    def token(self):
        if self.i >= len(self.raws):
            return None
        ty, va, ln, pos, after = self.raws[self.i]
        self.i += 1
        self.cur = after
        return RawTok(ty, va, ln, pos, after)

    def current_location(self):
        from cxxheaderparser.lexer import Location

        return Location(self.filename, self.linemap[self.cur])


def make_parser(raws, visitor, filename="f.h", linemap=None, options=None, nlines=None):
    """a CxxParser whose token stream is a real LexerTokenStream over StubPly(raws)"""
    from cxxheaderparser.lexer import LexerTokenStream
    from cxxheaderparser.parser import CxxParser

    if linemap is None:
        top = max([r[4] for r in raws] + [1]) + 1
        linemap = list(range(top + 1))
    p = CxxParser(filename, "", visitor, options)
    ls = LexerTokenStream.__new__(LexerTokenStream)
    ls._lex = StubPly(raws, filename, linemap)
    ls.tokbuf = deque()
    p.lex = ls
    p.state.location = ls.current_location()
    return p
