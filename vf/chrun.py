"""Sharded CrossHair runner with path / z3-query / solver-time accounting (engine E-CH).

A harness is a module-level function with a PEP316 contract (`post: _`), whose int arguments feed a
`Chooser`.  Each shard fixes the first choices concretely (`SHARD` prefix) and lets CrossHair explore the
rest; a harness is Confirmed only if every shard comes back `Confirmed over all paths`.
"""
import ast
import collections
import concurrent.futures as cf
import importlib
import multiprocessing as mp
import os
import re
import time

NCPU = int(os.environ.get("VF_JOBS", "0") or 0) or min(16, os.cpu_count() or 1)

# ---------------------------------------------------------------------------------------------
# choice helper used inside harnesses
# ---------------------------------------------------------------------------------------------

_PREFIX = ()  # set per worker: concrete values for the first picks


def set_prefix(p):
    global _PREFIX
    _PREFIX = tuple(p)


from crosshair.tracers import NoTracing, ResumedTracing, is_tracing  # noqa: E402


class Exhausted(Exception):
    pass


class Chooser:
    """Turns symbolic ints into lazily forked finite choices.

    pick(n) compares the next variable with 0..n-2 (one z3 feasibility query per comparison under
    CrossHair); every other integer value maps to n-1, so no precondition on the variables is needed and
    CrossHair's path tree is exactly the tree of choices actually consulted.
    """

    def __init__(self, vars_, prefix=None):
        self.vars = list(vars_)
        self.prefix = list(_PREFIX if prefix is None else prefix)
        self.i = 0
        self.trace = []

    def pick(self, n):
        if n <= 1:
            return 0
        if self.prefix:
            v = self.prefix.pop(0)
            v = v if 0 <= v < n else n - 1
            self.trace.append(v)
            return v
        if self.i >= len(self.vars):
            raise Exhausted("harness consulted more choices than it has variables")
        x = self.vars[self.i]
        self.i += 1
        if type(x) is int:  # concrete replay
            v = x if 0 <= x < n - 1 else n - 1
            self.trace.append(v)
            return v
        # symbolic: fork with tracing switched on for the comparisons only (callers run under NoTracing)
        if is_tracing():
            k = 0
            v = n - 1
            while k < n - 1:
                if x == k:
                    v = k
                    break
                k += 1
        else:
            with ResumedTracing():
                k = 0
                v = n - 1
                while k < n - 1:
                    if x == k:
                        v = k
                        break
                    k += 1
        self.trace.append(v)
        return v

    def flag(self):
        return self.pick(2) == 1

    def choose(self, seq):
        return seq[self.pick(len(seq))]


# ---------------------------------------------------------------------------------------------
# worker
# ---------------------------------------------------------------------------------------------


_PATCHED = False


def patch_crosshair():
    """CrossHair 0.0.110 mis-slices symbolic strings when a slice bound is negative (`line[9:-2]` on a symbolic
    concatenation compares unequal to the characters it contains - a false counterexample that the replay step caught).
    Negative bounds are normalised against the realised length before CrossHair's own slicing runs."""
    global _PATCHED
    if _PATCHED:
        return
    from crosshair.libimpl import builtinslib as bl
    from crosshair.core import deep_realize, realize

    orig = bl.LazyIntSymbolicStr.__getitem__

    def getitem(self, i):
        if isinstance(i, slice):
            with NoTracing():
                i = deep_realize(i)
                if (i.start is not None and i.start < 0) or (i.stop is not None and i.stop < 0):
                    with ResumedTracing():
                        n = len(self)
                    n = realize(n)
                    i = slice(*i.indices(n))
        return orig(self, i)

    bl.LazyIntSymbolicStr.__getitem__ = getitem
    _PATCHED = True


def _work(modname, fname, shard, timeout, per_path_timeout, globs):
    import z3
    patch_crosshair()
    from crosshair.core_and_libs import analyze_function, run_checkables
    from crosshair.options import AnalysisOptionSet

    t0 = time.time()
    mod = importlib.import_module(modname)
    g = dict(TWIN=False)
    g.update(globs or {})
    for k, v in g.items():
        setattr(mod, k, v)
    set_prefix(shard)
    stats = collections.Counter()
    zt = [0.0, 0, 0]
    orig = z3.Solver.check

    def chk(self, *a):
        t = time.perf_counter()
        r = orig(self, *a)
        zt[0] += time.perf_counter() - t
        zt[1] += 1
        if str(r) == "unknown":
            zt[2] += 1
        return r

    z3.Solver.check = chk
    try:
        opts = AnalysisOptionSet(
            per_condition_timeout=timeout,
            per_path_timeout=per_path_timeout,
            stats=stats,
            report_all=True,
            max_uninteresting_iterations=0,
        )
        cks = analyze_function(getattr(mod, fname), opts)
        msgs = run_checkables(cks)
        out = [(m.state.name, m.message) for m in msgs]
        if not cks:
            out.append(("NO_CONDITIONS", "no contract found on harness"))
    finally:
        z3.Solver.check = orig
    return dict(
        shard=tuple(shard),
        msgs=out,
        paths=int(stats.get("num_paths", 0)),
        z3_checks=zt[1],
        z3_unknown=zt[2],
        z3_s=zt[0],
        wall=time.time() - t0,
    )


_CALL_RE = re.compile(r"when calling (\w+)\((.*?)\)(?: \(which| with |$)", re.S)


def parse_counterexample(message):
    """'false when calling h(0, 3, x=1) (which returns False)' -> ([0, 3], {'x': 1}) or None"""
    m = re.search(r"when calling (\w+)\((.*)\)\s*(\(which .*)?$", message, re.S)
    if not m:
        return None
    argtxt = m.group(2)
    # the message may continue with " (which returns ...)" inside group 2 when greedy: trim balanced
    depth = 0
    end = None
    for i, ch in enumerate(argtxt):
        if ch in "([{":
            depth += 1
        elif ch in ")]}":
            if depth == 0:
                end = i
                break
            depth -= 1
    if end is not None:
        argtxt = argtxt[:end]
    try:
        call = ast.parse(f"f({argtxt})", mode="eval").body
        args = [ast.literal_eval(a) for a in call.args]
        kw = {k.arg: ast.literal_eval(k.value) for k in call.keywords}
        return args, kw
    except Exception:
        return None


class Result:
    def __init__(self, name):
        self.name = name
        self.shards = []
        self.paths = 0
        self.z3_checks = 0
        self.z3_unknown = 0
        self.z3_s = 0.0
        self.wall = 0.0
        self.counterexamples = []  # (shard, args, kwargs, message)
        self.errors = []  # (shard, state, message)
        self.unconfirmed = []  # shards not confirmed (timeouts etc.)
        self.confirmed = 0

    @property
    def verdict(self):
        if self.counterexamples:
            return "counterexample"
        if self.errors:
            return "error"
        if self.unconfirmed:
            return "inconclusive"
        return "confirmed"


def run(modname, fname, shards=((),), timeout=60.0, per_path_timeout=None, globs=None, jobs=None, pool=None):
    """Run harness `modname.fname` under CrossHair once per shard (in parallel)."""
    res = Result(f"{modname}.{fname}")
    t0 = time.time()
    # shard time-outs are hard stops for runaway exploration, not part of the verdict: the enumerations are finite, so a
    # generous multiple only matters on a loaded machine (where a tight stop would turn a decidable shard into 'inconclusive')
    timeout = timeout * float(os.environ.get("VF_TIMEOUT_MULT", "3"))
    if per_path_timeout is None:
        per_path_timeout = max(10.0, timeout / 4)
    own = pool is None
    if own:
        pool = cf.ProcessPoolExecutor(max_workers=jobs or NCPU, mp_context=mp.get_context("spawn"))
    try:
        futs = [pool.submit(_work, modname, fname, tuple(s), timeout, per_path_timeout, globs) for s in shards]
        for f in futs:
            r = f.result()
            res.shards.append(r)
            res.paths += r["paths"]
            res.z3_checks += r["z3_checks"]
            res.z3_unknown += r["z3_unknown"]
            res.z3_s += r["z3_s"]
            ok = False
            for state, msg in r["msgs"]:
                if state == "CONFIRMED":
                    ok = True
                elif state in ("POST_FAIL", "POST_ERR", "EXEC_ERR", "PRE_INVALID"):
                    ce = parse_counterexample(msg)
                    if ce is None:
                        res.errors.append((r["shard"], state, msg))
                    else:
                        res.counterexamples.append((r["shard"], ce[0], ce[1], f"{state}: {msg}"))
                elif state in ("CANNOT_CONFIRM", "PRE_UNSAT"):
                    res.unconfirmed.append((r["shard"], state, msg))
                else:
                    res.errors.append((r["shard"], state, msg))
            if ok:
                res.confirmed += 1
            elif not r["msgs"]:
                res.unconfirmed.append((r["shard"], "NO_MESSAGE", ""))
    finally:
        if own:
            pool.shutdown()
    res.wall = time.time() - t0
    return res


def make_pool(jobs=None):
    return cf.ProcessPoolExecutor(max_workers=jobs or NCPU, mp_context=mp.get_context("spawn"))


def record(ck, res, name, expect="confirmed", bound=None, notes=""):
    """fold a Result into a Check's accounting; returns the verdict string"""
    ck.states += res.paths
    # every explored path executes the real implementation and is judged against the harness oracle
    ck.traces += res.paths
    ck.add_queries("crosshair-z3", res.z3_checks, res.z3_s)
    v = res.verdict
    if expect == "refuted":  # reachability twin: must produce a counterexample
        verdict = "refuted-as-expected" if v == "counterexample" else "inconclusive"
        if v == "confirmed":
            verdict = "VACUOUS"
    else:
        verdict = v
    kw = dict(paths=res.paths, queries=res.z3_checks, solver_s=round(res.z3_s, 2), wall_s=round(res.wall, 1),
              shards=f"{res.confirmed}/{len(res.shards)}")
    if bound:
        kw["bound"] = bound
    if res.z3_unknown:
        kw["z3_unknown"] = res.z3_unknown
    n = notes
    if verdict == "inconclusive" and res.unconfirmed:
        n = (n + " " + "; ".join(f"{s}:{st}" for s, st, _ in res.unconfirmed[:4])).strip()
    if verdict == "error":
        n = (n + " " + "; ".join(f"{s}:{st}:{m[:200]}" for s, st, m in res.errors[:3])).strip()
    if n:
        kw["notes"] = n
    ck.sub(name, "E-CH", verdict, **kw)
    return verdict
