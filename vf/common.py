"""Shared plumbing: evidence writer, replay writer, known findings, exit codes.

Exit codes (DESIGN.md 1.3/8): 0 nothing violated in what was explored, 1 reproduced violation that is not
a listed known finding, 2 harness error (an encoding or stub disagreed with the real code - never a verdict).
"""
import hashlib
import inspect
import json
import os
import sys
import time
import traceback

ROOT = os.path.dirname(os.path.dirname(os.path.abspath(__file__)))
EVID = os.environ.get("VF_EVIDENCE_DIR") or os.path.join(ROOT, "evidence")  # the override is for development runs against scratch copies only
KNOWN_PATH = os.path.join(ROOT, "known_findings.json")
SCHEMA = "/root/.vp/EVIDENCE.schema.json"

EXIT_OK, EXIT_VIOLATION, EXIT_HARNESS = 0, 1, 2


class HarnessError(Exception):
    """My encoding / stub / oracle disagrees with the real code: not a verdict."""


def src_hash(obj):
    try:
        src = inspect.getsource(obj)
    except Exception:
        return None
    return hashlib.sha256(src.encode()).hexdigest()[:12]


def repo_head():
    try:
        import subprocess

        return subprocess.check_output(["git", "-C", "/repo", "rev-parse", "--short", "HEAD"], text=True).strip()
    except Exception:
        return "?"


def load_known(pid):
    """entries of known_findings.json for this property, split into (known, fixed)"""
    try:
        with open(KNOWN_PATH) as fp:
            data = json.load(fp)
    except FileNotFoundError:
        return [], []
    ents = [e for e in data.get("findings", []) if e.get("property") == pid]
    return [e for e in ents if e.get("status") == "known"], [e for e in ents if e.get("status") == "fixed"]


class Check:
    """One run of one property's check; collects coverage and writes evidence/<id>.json."""

    def __init__(self, pid, tier, level="model_checking"):
        self.pid = pid
        self.tier = tier
        self.level = level
        self.seed = int(os.environ.get("VERIF_SEED", "0") or 0)
        self.t0 = time.time()
        self.functions = {}  # qualified name -> source hash
        self.bounds = {}
        self.subchecks = []  # dicts: name, engine, verdict, paths, queries, solver_s, wall_s, bound, notes
        self.samples = []
        self.assumptions = []
        self.outside = []
        self.undecided = []
        self.violations = []  # dicts: what, replay
        self.known_hits = []  # dicts: id, what
        self.skipped = []
        self.states = 0
        self.transitions = 0
        self.traces = 0
        self.solver_s = 0.0
        self.queries = {}  # engine -> count
        self.exhaustive = True
        self.extra = {}
        self.known, self.fixed = load_known(pid)
        self._nreplay = 0

    # ---- bookkeeping
    def encode(self, *objs):
        for o in objs:
            name = getattr(o, "__qualname__", None) or getattr(o, "__name__", repr(o))
            mod = getattr(o, "__module__", "")
            self.functions[f"{mod}.{name}"] = src_hash(o)

    def assume(self, *texts):
        for t in texts:
            if t not in self.assumptions:
                self.assumptions.append(t)

    def out_of_scope(self, *texts):
        for t in texts:
            if t not in self.outside:
                self.outside.append(t)

    def sample(self, s, limit=12):
        if len(self.samples) < limit:
            self.samples.append(s)

    def add_queries(self, engine, n, secs=0.0):
        self.queries[engine] = self.queries.get(engine, 0) + int(n)
        self.solver_s += secs
        self.transitions += int(n)

    def sub(self, name, engine, verdict, **kw):
        d = dict(name=name, engine=engine, verdict=verdict)
        d.update(kw)
        self.subchecks.append(d)
        if verdict not in ("holds", "confirmed", "refuted-as-expected", "known-finding-only", "skipped"):
            if verdict in ("inconclusive", "unknown", "timeout"):
                self.exhaustive = False
                self.undecided.append(f"{name}: {verdict} {kw.get('notes', '')}".strip())
        print(f"  [{self.pid} +{time.time() - self.t0:5.0f}s] {name}: {verdict} " + " ".join(f"{k}={v}" for k, v in kw.items() if k != "notes"), flush=True)
        return d

    def skip(self, what, why):
        self.skipped.append(f"{what}: {why}")
        print(f"  [{self.pid}] SKIPPED {what}: {why}", flush=True)

    # ---- replays / violations
    def replay_path(self):
        d = os.path.join(EVID, "replays", self.pid)
        os.makedirs(d, exist_ok=True)
        self._nreplay += 1
        return os.path.join(d, f"{self.tier}_{self._nreplay}.py")

    def write_replay(self, body):
        """body: python source of a stand-alone script that exits 1 iff the violation reproduces"""
        p = self.replay_path()
        hdr = (
            "#!/usr/bin/env python\n"
            f"# replay for property {self.pid} (written by the {self.tier} check); run with /verif/.venv/bin/python\n"
            "import sys\nsys.path.insert(0, %r)\n" % ROOT
        )
        with open(p, "w") as fp:
            fp.write(hdr + body)
        return p

    def run_replay(self, path, timeout=300):
        """True iff the replay script reports the violation (exit 1) on the real code"""
        import subprocess

        r = subprocess.run([sys.executable, path], capture_output=True, text=True, timeout=timeout)
        return r.returncode == 1, (r.stdout + r.stderr)[-2000:]

    def match_known(self, key):
        """key: dict describing a violation class; a known entry matches when every item of its 'match' equals key's"""
        for e in self.known:
            m = e.get("match", {})
            if m and all(key.get(k) == v for k, v in m.items()):
                return e
        return None

    def violation(self, what, replay, key=None):
        """register a reproduced violation (after replay); returns True when it is a listed known finding"""
        e = self.match_known(key or {})
        if e is not None:
            self.known_hit(e, what)
            return True
        self.violations.append(dict(what=what, replay=replay, key=key))
        return False

    def known_hit(self, entry, what=None):
        if not any(h["id"] == entry["id"] for h in self.known_hits):
            self.known_hits.append(dict(id=entry["id"], what=what or entry.get("what", "")))

    # ---- finish
    def finish(self):
        wall = time.time() - self.t0
        cov = dict(
            states=max(1, int(self.states)),
            transitions=max(1, int(self.transitions)),
            traces_validated_against_impl=int(self.traces),
            samples=self.samples or ["(no sample recorded)"],
            exhaustive=bool(self.exhaustive and not self.undecided),
            explanation=self.extra.pop("explanation", ""),
            functions_encoded=self.functions,
            bounds=self.bounds,
            outside_bounds=self.outside,
            queries_discharged=self.queries,
            solver_time_s=round(self.solver_s, 3),
            subchecks=self.subchecks,
            undecided=self.undecided,
            skipped=self.skipped,
            known_findings_reproduced=self.known_hits,
            violations=self.violations,
            repo_head=repo_head(),
        )
        cov.update(self.extra)
        ev = dict(
            property_id=self.pid,
            tier=self.tier,
            seed=self.seed,
            level=self.level,
            coverage=cov,
            assumptions=self.assumptions,
            wall_s=round(wall, 2),
            violations=len(self.violations),
        )
        os.makedirs(EVID, exist_ok=True)
        path = os.path.join(EVID, f"{self.pid}.json")
        with open(path, "w") as fp:
            json.dump(ev, fp, indent=1, default=str)
        try:
            import jsonschema

            with open(SCHEMA) as fp:
                jsonschema.validate(ev, json.load(fp))
        except FileNotFoundError:
            pass
        for h in self.known_hits:
            print(f"KNOWN-FINDING: property={self.pid} {h['id']}: {h['what']}")
        for v in self.violations:
            print(f"VIOLATION property={self.pid} replay={v['replay']}")
            print(f"  {v['what']}")
        nq = sum(self.queries.values())
        print(
            f"[{self.pid}] {self.tier}: {len(self.violations)} violation(s), {len(self.known_hits)} known finding(s), "
            f"{len(self.undecided)} undecided, states={self.states} queries={nq} solver={self.solver_s:.1f}s wall={wall:.1f}s"
        )
        return EXIT_VIOLATION if self.violations else EXIT_OK


def main_wrapper(fn, pid, tier):
    """run fn(check) -> None; convert HarnessError / crashes into exit 2 (never a VIOLATION line)"""
    try:
        ck = fn(tier)
        return ck.finish()
    except HarnessError as e:
        print(f"HARNESS-ERROR property={pid}: {e}", file=sys.stderr)
        traceback.print_exc()
        return EXIT_HARNESS
    except Exception as e:  # noqa
        print(f"HARNESS-ERROR property={pid}: unexpected {type(e).__name__}: {e}", file=sys.stderr)
        traceback.print_exc()
        return EXIT_HARNESS
