"""C15 - parses are isolated from one another.

Reduction: the outcome of a parse depends only on its arguments if (F) no parse ever leaves a write in an object that is
reachable from module or class level (then any sequential history, any re-entrant nesting and any interleaving of parses
reads the same shared state).  Decided with E-CH exploration:
 (F) frame condition: every module-level and class-level object of the package (incl. the cached prototype lexer) is
     finger-printed before and after each parse of every input of a pool (valid, invalid, truncated, lexer errors);
 (H) history independence: outcome(B) after parsing A == outcome(B) as the first parse of a fresh interpreter, for all
     ordered pairs (A, B) - CrossHair explores the pairs; the fresh-interpreter baselines come from child processes;
 (R) re-entrancy: a parse of B started from inside each callback of a parse of A gives the stand-alone outcome, and A's
     outcome is unaffected.
Thread schedules are NOT explored (no engine here models Python thread interleavings): the quantifier over schedules is
covered only through (F) under the assumption that concurrent reads of unmodified objects are safe in CPython; one
concrete multi-threaded run is included as a smoke test, not as a verdict.
"""
import dataclasses
import json
import subprocess
import sys
import types

from crosshair.tracers import NoTracing

from ..chrun import Chooser
from ..common import Check, HarnessError, ROOT

TWIN = False


def pool():
    from .c12 import POOL
    from .c06 import BREAKERS

    out = []
    for t, _ in POOL[::2]:
        out.append(("ok", t.format(i=1)))
    out += [
        ("ok", "void probe(auto value, auto *ptr);"),
        ("ok", "void earlier(auto const &first, auto volatile second, const auto third, C auto const fourth);"),
        ("ok", "struct { int a; } x; struct { int b; } y;"),
        ("ok", "auto f() -> int; auto g() -> const int *; decltype(auto) h();"),
        ("ok", "template <typename T> struct S { S(); ~S(); operator T() const volatile; };"),
        ("ok", "const volatile int *const volatile *p; int const (&r)[2] = a; void (*const fp)(void) = 0;"),
        ("ok", "#line 40 \"other.h\"\nint relocated;\n"),
        ("ok", "int a\\\n= 1;\n/* c\n */ int b;"),
    ]
    for name, text, where in BREAKERS:
        if where in ("always", "outside-class", "always-global"):
            out.append(("bad", "int before;\n" + text + "\nint after;\n"))
    out += [("bad", "struct S { int x; "), ("bad", "namespace N {"), ("bad", "template <"), ("bad", "int x = 3 @ 4;\n"), ("bad", "\n\n  int `q;")]
    # one malformed input per 'expected ...' site family: the error text must not depend on anything but the input
    for t in ("using = int;", "using ;", "namespace 1 {}", "enum class 5;", "template <typename T> 5;", "typedef ;", "struct S : 5 {};", "void f(int x = );",
              "struct S { friend; };", "int operator;", "static_assert;", "extern \"C\" 5", "alignas;", "decltype;", "int x[;", "template <5> int x;",
              "template <class T> concept 5;", "using namespace ;", "namespace a = ;", "struct S { public };", "__declspec;", "void f() throw;", "enum E { 1 };",
              "template <typename T> requires 5 void f();", "struct S final 5;", "void f(int) -> ;", "int x : ;", "class A : public { };"):
        out.append(("bad", t))
    if have_pcpp():
        out += [("ok", PCPP_MARK + "int y;"), ("ok", PCPP_MARK + "#define A 1\nint z = A;\n"), ("ok", PCPP_MARK + "#endif\nint x;\n"),
                ("ok", PCPP_MARK + "#if 1\nint q;\n"), ("ok", PCPP_MARK + "#define F(a, b) a\nint w = F(1);\n"), ("ok", PCPP_MARK + "#include \"missing.h\"\nint v;\n")]
    return out


PCPP_MARK = "/*pcpp*/"


def have_pcpp():
    try:
        import pcpp  # noqa

        return True
    except ImportError:
        return False


def options_for(src):
    """inputs that start with the marker comment are parsed through the pcpp preprocessor hook"""
    if not src.startswith(PCPP_MARK):
        return None
    from cxxheaderparser.options import ParserOptions
    from cxxheaderparser.preprocessor import make_pcpp_preprocessor

    return ParserOptions(preprocessor=make_pcpp_preprocessor())


def outcome(src, filename="in.h"):
    from cxxheaderparser.simple import parse_string
    from cxxheaderparser.errors import CxxParseError

    try:
        return "R:" + repr(parse_string(src, filename=filename, options=options_for(src)))
    except CxxParseError as e:
        return "E:" + str(e)
    except Exception as e:  # noqa
        return f"X:{type(e).__name__}:{e}"


FRESH_SNIPPET = r'''
import sys, json
sys.path.insert(0, %r)
from vf.props.c15 import pool, outcome
P = pool()
i = int(sys.argv[1])
print(json.dumps(outcome(P[i][1], "in%%d.h" %% i)))
'''


def fresh_baselines(n, hashseed="1"):
    """outcome of pool[i] as the very first parse of a fresh interpreter (one child process per input) with the given PYTHONHASHSEED"""
    import concurrent.futures as cf
    import os

    code = FRESH_SNIPPET % ROOT
    env = dict(os.environ, PYTHONHASHSEED=str(hashseed))

    def one(i):
        r = subprocess.run([sys.executable, "-c", code, str(i)], capture_output=True, text=True, timeout=120, env=env)
        if r.returncode != 0:
            raise HarnessError(f"fresh-interpreter child failed for input {i}: {r.stderr[-400:]}")
        return json.loads(r.stdout.strip().splitlines()[-1])

    with cf.ThreadPoolExecutor(16) as tp:
        return list(tp.map(one, range(n)))


# ---------------------------------------------------------------------------------------------
# (F) finger print of everything reachable from module / class level
# ---------------------------------------------------------------------------------------------


def shared_roots():
    """(label, object) for every module-level and class-level attribute of the package's modules"""
    import cxxheaderparser
    import importlib
    import pkgutil

    roots = []
    mods = [cxxheaderparser]
    for m in pkgutil.walk_packages(cxxheaderparser.__path__, "cxxheaderparser."):
        if m.name.endswith("__main__") or m.name.endswith("gentest") or m.name.endswith("dump"):
            continue
        try:
            mods.append(importlib.import_module(m.name))
        except Exception:  # noqa
            continue
    for mod in mods:
        for k, v in vars(mod).items():
            if k.startswith("__") or isinstance(v, types.ModuleType):
                continue
            if isinstance(v, type):
                if getattr(v, "__module__", "").startswith("cxxheaderparser"):
                    for ck_, cv in vars(v).items():
                        if ck_.startswith("__") or callable(cv) or isinstance(cv, (property, staticmethod, classmethod)):
                            continue
                        roots.append((f"{mod.__name__}.{k}.{ck_}", cv))
                continue
            if callable(v) and not dataclasses.is_dataclass(v):
                continue
            roots.append((f"{mod.__name__}.{k}", v))
    return roots


def fingerprint(o, depth=0, seen=None):
    """structural fingerprint (order-insensitive for sets) of plain data reachable from o"""
    seen = seen if seen is not None else set()
    if isinstance(o, (int, float, str, bytes, bool, type(None))):
        return repr(o)
    if id(o) in seen or depth > 6:
        return "<cycle>"
    seen.add(id(o))
    if isinstance(o, (list, tuple)):
        return "[" + ",".join(fingerprint(x, depth + 1, seen) for x in o) + "]"
    if isinstance(o, (set, frozenset)):
        return "{" + ",".join(sorted(fingerprint(x, depth + 1, seen) for x in o)) + "}"
    if isinstance(o, dict):
        return "{" + ",".join(sorted(fingerprint(k, depth + 1, seen) + ":" + fingerprint(v, depth + 1, seen) for k, v in o.items())) + "}"
    if isinstance(o, type) or callable(o):
        return f"<{getattr(o, '__qualname__', type(o).__name__)}>"
    d = getattr(o, "__dict__", None)
    if d is not None:
        return type(o).__name__ + "(" + ",".join(sorted(k + "=" + fingerprint(v, depth + 1, seen) for k, v in d.items() if not k.startswith("__"))) + ")"
    return f"<{type(o).__name__}>"


def fingerprint_all():
    return {label: fingerprint(obj) for label, obj in shared_roots()}


def frame_judge(i):
    P = pool()
    outcome("int warmup;")  # first-use initialisation (prototype lexer) is handled by (H)
    before = fingerprint_all()
    outcome(P[i][1])
    after = fingerprint_all()
    diff = [k for k in before if before[k] != after.get(k)] + [k for k in after if k not in before]
    return None if not diff else f"parse of input {i} left writes in shared objects: {diff[:4]}"


def after_history(i, base):
    """parse input i, then every input of the pool: the inputs whose outcome differs from their fresh-interpreter outcome"""
    P = pool()
    outcome(P[i][1], f"in{i}.h")
    return [j for j in range(len(P)) if outcome(P[j][1], f"in{j}.h") != base[j]]


_BASE = None


def load_base():
    global _BASE
    if _BASE is None:
        with open(BASEFILE) as fp:
            _BASE = json.load(fp)
    return _BASE


BASEFILE = ""


def history_judge(i, j):
    P = pool()
    base = load_base()
    outcome(P[i][1], f"in{i}.h")
    got = outcome(P[j][1], f"in{j}.h")
    if got != base[j]:
        return f"outcome of input {j} after parsing input {i} differs from its outcome in a fresh interpreter:\n   after history: {got[:200]}\n   fresh: {base[j][:200]}"
    return None


def reentrant_judge(i, j):
    """parse B from inside every callback of the parse of A"""
    from cxxheaderparser.parser import CxxParser
    from cxxheaderparser.simple import SimpleCxxVisitor
    from cxxheaderparser.errors import CxxParseError
    from ..recorder import CALLBACKS

    P = pool()
    base = load_base()
    inner = []

    class V(SimpleCxxVisitor):
        pass

    def wrap(name):
        orig = getattr(SimpleCxxVisitor, name)

        def cb(self, state, *a):
            inner.append(outcome(P[j][1], f"in{j}.h"))
            return orig(self, state, *a)

        return cb

    for name in CALLBACKS:
        setattr(V, name, wrap(name))
    v = V()
    try:
        opts = options_for(P[i][1])
        content = P[i][1] if opts is None else opts.preprocessor(f"in{i}.h", P[i][1])
        CxxParser(f"in{i}.h", content, v, opts).parse()
        outer = "R:" + repr(v.data)
    except CxxParseError as e:
        outer = "E:" + str(e)
    except Exception as e:  # noqa
        outer = f"X:{type(e).__name__}:{e}"
    for k, got in enumerate(inner):
        if got != base[j]:
            return f"input {j} parsed from inside callback #{k} of the parse of input {i} differs from its stand-alone outcome"
    if outer != base[i]:
        return f"outcome of input {i} changed because input {j} was parsed from inside its callbacks"
    return None


def h_frame(c0: int) -> bool:
    """
    post: _
    """
    with NoTracing():
        ch = Chooser([c0])
        i = ch.pick(len(pool()))
        if TWIN:
            return False
        return frame_judge(i) is None


def h_history(c0: int, c1: int) -> bool:
    """
    post: _
    """
    with NoTracing():
        ch = Chooser([c0, c1])
        n = len(pool())
        i, j = ch.pick(n), ch.pick(n)
        if TWIN:
            return False
        return history_judge(i, j) is None


def h_reentrant(c0: int, c1: int) -> bool:
    """
    post: _
    """
    with NoTracing():
        ch = Chooser([c0, c1])
        n = len(pool())
        i, j = ch.pick(n), ch.pick(n)
        if TWIN:
            return False
        return reentrant_judge(i, j) is None


def thread_smoke(base):
    import threading

    P = pool()
    bad = []

    def work(k):
        for r in range(3):
            for j in range(k, len(P), 4):
                if outcome(P[j][1], f"in{j}.h") != base[j]:
                    bad.append(j)

    ts = [threading.Thread(target=work, args=(k,)) for k in range(4)]
    [t.start() for t in ts]
    [t.join() for t in ts]
    return bad


def run(tier):
    import os
    import tempfile
    from .. import chrun
    from cxxheaderparser.lexer import PlyLexer
    from cxxheaderparser._ply import lex as plylex
    from cxxheaderparser.parser import CxxParser

    ck = Check("C15", tier)
    P = pool()
    ck.encode(PlyLexer.__new__, plylex.Lexer.clone, CxxParser.__init__)
    ck.bounds = dict(pool=len(P), histories="all ordered pairs (A, B): B after A vs B first in a fresh interpreter", reentrancy="B from inside every callback of A, all ordered pairs" if tier == "thorough" else "B from inside every callback of A, pairs with A valid",
                     shared_objects=len(shared_roots()))
    ck.assume("thread schedules are not explored: covered only through the frame condition (F), assuming concurrent reads of unmodified objects are safe in CPython (free-threaded builds are outside)",
              "the parser runs concretely per explored choice; the solver contributes the exhaustive exploration of the (A, B) space and the completeness verdict",
              "finger print = structural value of everything reachable (depth <= 6) from module-level and class-level attributes of the package, incl. PlyLexer._lexer")
    ck.out_of_scope("histories longer than two parses other than through the frame condition", "interleavings of threads")
    base = fresh_baselines(len(P), "1")
    seeds = ("2", "3") if tier == "quick" else ("2", "3", "4", "5", "6", "7", "8")
    seed_dep = set()
    for sd in seeds:
        other = fresh_baselines(len(P), sd)
        seed_dep |= {j for j in range(len(P)) if other[j] != base[j]}
    ck.traces += len(P) * (1 + len(seeds))
    ck.sub("(S) the outcome in a fresh interpreter does not depend on the interpreter's string-hash seed", "replay", "holds" if not seed_dep else "flagged",
           inputs=len(P), seeds=1 + len(seeds), differing=len(seed_dep))
    for j in sorted(seed_dep)[:3]:
        body = ("from vf.props import c15\n" f"j = {j}\nouts = set(c15.fresh_baselines(len(c15.pool()), sd)[j] for sd in {('1',) + seeds!r})\n"
                "print(outs)\nsys.exit(1 if len(outs) > 1 else 0)\n")
        pth = ck.write_replay(body)
        ok, out = ck.run_replay(pth, timeout=900)
        if not ok:
            raise HarnessError(f"hash-seed dependence of input {j} did not reproduce: {out[-300:]}")
        ck.violation(f"(hash seed) the outcome of input {j} ({P[j][1][:60]!r}) differs between fresh interpreters with different PYTHONHASHSEED: {out.strip()[:300]}", pth,
                     key=dict(kind="hashseed"))
    fd, basefile = tempfile.mkstemp(prefix="vfc15_", suffix=".json")
    with os.fdopen(fd, "w") as fp:
        json.dump(base, fp)
    n = len(P)
    pool_ = chrun.make_pool()
    try:
        g = dict(BASEFILE=basefile)
        tw = chrun.run(__name__, "h_frame", [(0,)], timeout=60, globs=dict(g, TWIN=True), pool=pool_)
        chrun.record(ck, tw, "frame condition reachability twin", expect="refuted")
        rf = chrun.run(__name__, "h_frame", [(a,) for a in range(n)], timeout=120, globs=g, pool=pool_)
        chrun.record(ck, rf, "(F) no parse leaves a write in any module- or class-level object (sufficient condition; a write counts as a violation when a later parse observes it)", bound=f"{n} inputs x {len(shared_roots())} shared roots")
        rh = chrun.run(__name__, "h_history", [(a,) for a in range(n)], timeout=(200 if tier == "quick" else 900), globs=g, pool=pool_)
        chrun.record(ck, rh, "(H) outcome(B) after A == outcome(B) first in a fresh interpreter, all ordered pairs", bound=f"{n} x {n} pairs")
        outer = [a for a in range(n) if P[a][0] == "ok"] if tier == "quick" else list(range(n))
        rr = chrun.run(__name__, "h_reentrant", [(a,) for a in outer], timeout=(250 if tier == "quick" else 1800), globs=g, pool=pool_)
        chrun.record(ck, rr, "(R) B parsed from inside every callback of A == stand-alone; A unaffected", bound=f"{len(outer)} x {n} pairs")
    finally:
        pool_.shutdown()
    globals()["BASEFILE"] = basefile
    try:
        for name, res, fn in (("frame", rf, None), ("history", rh, history_judge), ("reentrant", rr, reentrant_judge)):
            seen = 0
            if fn is not None and any(v["key"]["kind"] in ("frame", "hashseed") for v in ck.violations):
                if res.counterexamples:
                    ck.sample(dict(note=f"{len(res.counterexamples)} ({name}) counterexamples not replayed: the frame condition or hash-seed independence is already violated, so worker processes differ from the baseline interpreter for that reason"))
                continue
            for shard, args, kw, msg in res.counterexamples:
                vals = list(shard) + list(args)
                ch = Chooser(vals, prefix=())
                i = ch.pick(n)
                if fn is None:
                    # run in a child: the parse under test may have damaged this process' shared state already.  A write to a shared
                    # object is only the *sufficient* condition failing; it is a violation of the property when a later parse observes it
                    body = ("from vf.props import c15\n" f"bad = c15.frame_judge({i})\nprint(bad)\nif not bad:\n    sys.exit(0)\n"
                            f"base = c15.fresh_baselines(len(c15.pool()))\nobs = c15.after_history({i}, base)\nprint('later parses that observe it:', obs)\nsys.exit(1 if obs else 3)\n")
                    what = f"input {i}: {P[i][1][:80]!r}"
                    p = ck.write_replay(body)
                    r_ = subprocess.run([sys.executable, p], capture_output=True, text=True, timeout=900)
                    ck.traces += 1
                    if r_.returncode == 3:
                        ck.undecided.append(f"frame condition: the parse of {what} writes to shared objects ({r_.stdout.strip().splitlines()[0][:200]}) but no later parse of the pool observes it; "
                                            "histories longer than two parses are then not covered by the inductive argument")
                        ck.exhaustive = False
                        os.unlink(p)
                        seen += 1
                        if seen >= 3:
                            break
                        continue
                    if r_.returncode != 1:
                        raise HarnessError(f"frame counterexample did not reproduce: {msg}\n{(r_.stdout + r_.stderr)[-500:]}")
                    ck.violation(f"(frame) {r_.stdout.strip().splitlines()[0][:300]}; {r_.stdout.strip().splitlines()[-1][:120]} [{what}]", p, key=dict(kind=name))
                    seen += 1
                    if seen >= 3:
                        break
                    continue
                else:
                    j = ch.pick(n)
                    body = ("import json, os, tempfile\nfrom vf.props import c15\n" "base = c15.fresh_baselines(len(c15.pool()))\nfd, p = tempfile.mkstemp(); os.write(fd, json.dumps(base).encode()); os.close(fd)\n"
                            f"c15.BASEFILE = p\nbad = c15.{fn.__name__}({i}, {j})\nos.unlink(p)\nprint(bad)\nsys.exit(1 if bad else 0)\n")
                    what = f"A = {P[i][1][:60]!r}, B = {P[j][1][:60]!r}"
                p = ck.write_replay(body)
                ok, out = ck.run_replay(p, timeout=600)
                ck.traces += 1
                if not ok:
                    raise HarnessError(f"{name} counterexample did not reproduce: {msg}\n{out[-500:]}")
                ck.violation(f"({name}) {out.strip().splitlines()[0][:300] if out.strip() else ''} [{what}]", p, key=dict(kind=name))
                seen += 1
                if seen >= 3:
                    break
        bad = thread_smoke(base)
        ck.traces += 1
        ck.sub("concrete smoke test: 4 threads x 3 rounds over the pool (not a verdict about schedules)", "replay", "holds" if not bad else "flagged", differing=len(bad))
        if bad:
            body = ("from vf.props import c15\n" "base = c15.fresh_baselines(len(c15.pool()))\nbad = c15.thread_smoke(base)\nprint(bad)\nsys.exit(1 if bad else 0)\n")
            ck.violation(f"outcomes differ when the pool is parsed from 4 threads: inputs {sorted(set(bad))[:6]}", ck.write_replay(body), key=dict(kind="threads"))
    finally:
        os.unlink(basefile)
    ck.sample(dict(pool=[p_[1][:60] for p_ in P][:10]))
    ck.sample(dict(shared_roots=[l for l, _ in shared_roots()][:25]))
    ck.extra["explanation"] = "CrossHair explores inputs and ordered pairs; frame condition via structural fingerprints of all shared objects; fresh-interpreter baselines from child processes"
    return ck
