"""C06 - every input ends in a result or a CxxParseError that says where.

(i)  Lexer level (E-RX + E-CH): on the encoding of the built master regex z3 shows that at every position some rule
     matches, or the character is a literal, or t_error is entered (PLY's own LexError branches are unreachable because
     t_error is defined and raises); CrossHair shows that every error rule and t_error raise LexError through _error
     with tok.location set, for all texts and line numbers.
(ii) Token level (E-CH): CrossHair explores ALL token sequences up to a length bound over a reduced alphabet - one
     representative per class of token types that parser.py cannot tell apart (computed from its AST each run) plus the
     token values it compares against and lexer-error spellings - rendered over several lines and pushed through
     parse_string: the outcome is a return or a CxxParseError whose text starts with '<file>:<line>: ' for a line that
     exists.  Nothing else may escape (the except block itself must not raise).
(iii) Rule-breaking constructs in every block context, and truncations of valid programs at every token boundary.
"""
import ast
import time

import z3
from crosshair.tracers import NoTracing

from .. import rx
from ..chrun import Chooser
from ..common import Check, HarnessError

TWIN = False
BASIC_SOURCE_CHARS = " \t\v\f\n\r" + "abcdefghijklmnopqrstuvwxyzABCDEFGHIJKLMNOPQRSTUVWXYZ0123456789" + "_{}[]#()<>%:;.?*+-/^&|~!=,\\\"'"
MAXTOK = 3
ALPHA = None  # set per worker / run
FNAME = "dir/in put.h"


def reduced_alphabet():
    """one spelling per class of token types parser.py can distinguish + value spellings it compares against"""
    from cxxheaderparser.lexer import PlyLexer
    import cxxheaderparser.parser as P

    src = open(P.__file__).read()
    consts = {n.value for n in ast.walk(ast.parse(src)) if isinstance(n, ast.Constant) and isinstance(n.value, str)}
    types = set(PlyLexer.tokens) | set(PlyLexer.literals)
    mentioned = sorted(t for t in types if t in consts)
    spell = {
        "NAME": "x", "INT_CONST_DEC": "7", "STRING_LITERAL": '"s"', "DBL_LBRACKET": "[[", "DBL_RBRACKET": "]]", "DBL_COLON": "::", "DBL_AMP": "&&",
        "DBL_PIPE": "||", "ARROW": "->", "SHIFT_LEFT": "<<", "ELLIPSIS": "...", "DIVIDE": "/", "INCLUDE_DIRECTIVE": "#include <q>\n", "PRAGMA_DIRECTIVE": "#pragma",
        "PP_DIRECTIVE": "#define Q\n", "NEWLINE": "\n", "FLOAT_CONST": "1.5", "CHAR_CONST": "'c'", "INT_CONST_OCT": "0", "COMMENT_SINGLELINE": "// c\n",
        "COMMENT_MULTILINE": "/* c */", "WHITESPACE": " ", "INT_CONST_HEX": "0x1", "INT_CONST_BIN": "0b1", "HEX_FLOAT_CONST": "0x1p1", "INT_CONST_CHAR": "'ab'",
        "WCHAR_CONST": "L'c'", "U8CHAR_CONST": "u8'c'", "U16CHAR_CONST": "u'c'", "U32CHAR_CONST": "U'c'", "WSTRING_LITERAL": 'L"s"', "U8STRING_LITERAL": 'u8"s"',
        "U16STRING_LITERAL": 'u"s"', "U32STRING_LITERAL": 'U"s"',
    }
    out = []
    for t in mentioned:
        out.append(spell.get(t, t))
    # types the parser never mentions collapse into one class: a keyword, a literal and a constant stand for it
    unm = sorted(types - set(mentioned))
    for t in unm:
        if t in PlyLexer.keywords:
            out.append(t)
            break
    for t in unm:
        if t in PlyLexer.literals:
            out.append(t)
            break
    out.append("1.5")
    # values compared against tok.value
    for v in ("override", "__stdcall", "0", "~x", "1_km", "operator"):
        if v not in out:
            out.append(v)
    # lexer-error spellings (must surface as CxxParseError with a location)
    out += ["$", "09", "''", "'a", '"\\q"', "#if 1\n", "\f", "\xa0"]  # incl. illegal characters that Python's str methods treat as white space
    seen, res = set(), []
    for s in out:
        if s not in seen and s not in (" ",):
            seen.add(s)
            res.append(s)
    return res


CORE = ["x", "int", "*", "&", "(", ")", ",", ";", "{", "}", "const", "struct", "=", "7", "[", "]", "<", ">", "::", ":", "template", "operator", "~x", "public",
        "namespace", "using", "enum", "friend", "...", "extern", '"s"', "typedef", "$", "\f"]


def judge_tokens(toks):
    """parse the token sequence rendered on several lines; None or description"""
    from cxxheaderparser.simple import parse_string
    from cxxheaderparser.errors import CxxParseError

    parts = []
    for i, t in enumerate(toks):
        parts.append(t)
        if not t.endswith("\n"):
            parts.append("\n" if i % 2 else " ")
    src = "".join(parts)
    nlines = src.count("\n") + 1
    try:
        parse_string(src, filename=FNAME)
        return None
    except CxxParseError as e:
        msg = str(e)
        return check_message(msg, nlines, e)
    except RecursionError:
        return None
    except Exception as e:  # noqa
        return f"{type(e).__name__} escaped: {e}"


def check_message(msg, nlines, e, fname=None):
    fname = fname or FNAME
    if not msg.startswith(fname + ":"):
        return f"message does not start with the file name: {msg!r}"
    rest = msg[len(fname) + 1:]
    if rest.startswith(" parse error"):
        # 'file: parse error' is only allowed before any token has been read
        return None if e.__cause__ is not None and getattr(e.__cause__, "tok", None) is None else f"message without a line although a token was read: {msg!r}"
    num = rest.split(":", 1)[0]
    if not num.isdigit():
        return f"no line number after the file name: {msg!r}"
    if not (1 <= int(num) <= nlines):
        return f"line {num} does not exist in an input of {nlines} lines: {msg!r}"
    if e.__cause__ is None:
        return "CxxParseError without a cause"
    return None


def h_tokens(c0: int, c1: int, c2: int, c3: int, c4: int) -> bool:
    """
    post: _
    """
    with NoTracing():
        ch = Chooser([c0, c1, c2, c3, c4])
        toks = pick_tokens(ch, ALPHA, MAXTOK, TAIL_FROM)
        if TWIN:
            return False
        return judge_tokens(toks) is None


TAIL_FROM = None  # thorough tier: tokens from this position on come from the core alphabet (keeps three-token sequences over the full alphabet feasible)


def pick_tokens(ch, alpha, maxtok, tail_from=None):
    toks = []
    while len(toks) < maxtok:
        al = CORE if (tail_from is not None and len(toks) >= tail_from) else alpha
        k = ch.pick(len(al) + 1)
        if k == len(al):
            break
        toks.append(al[k])
    return toks


def tokens_replay(vals, alpha, maxtok, tail_from=None):
    ch = Chooser(list(vals), prefix=())
    toks = pick_tokens(ch, alpha, maxtok, tail_from)
    return toks, judge_tokens(toks)


# ---------------------------------------------------------------------------------------------
# (iii) rule-breaking constructs in every block context; truncation
# ---------------------------------------------------------------------------------------------

CONTEXTS = [
    ("global", "{X}\n", False), ("namespace", "namespace N {{\n{X}\n}}\n", False), ("extern", "extern \"C\" {{\n{X}\n}}\n", False),
    ("extern-in-ns", "namespace N {{ extern \"C++\" {{\n{X}\n}} }}\n", False), ("class", "struct S {{\n{X}\n}};\n", True),
    ("nested-class", "namespace N {{ class O {{ struct S {{\n{X}\n}}; }}; }}\n", True), ("class-in-extern", "extern \"C\" {{ union U {{\n{X}\n}}; }}\n", True),
]
# (name, text, where it is a rule violation: 'always' | 'outside-class' | 'inside-class')
BREAKERS = [
    ("stray-close-brace", "} int z;", "always-global"),
    ("mismatched-paren-bracket", "int v = (1];", "always"),
    ("mismatched-brace-paren", "int v{1);", "always"),
    ("mismatched-in-attribute", "[[a(]] int v;", "always"),
    ("mismatched-in-array", "int v[(1];", "always"),
    ("access-specifier", "public: int v;", "outside-class"),
    ("friend-class", "friend class F;", "outside-class"),
    ("friend-function", "friend void ff();", "outside-class"),
    ("friend-function-body", "friend void ff() {}", "outside-class"),
    ("friend-template", "template <typename T> friend void ft(T);", "outside-class"),
    ("namespace-in-class", "namespace M { int q; }", "inside-class"),
    ("namespace-alias-in-class", "namespace M = N;", "inside-class"),
    ("using-namespace-in-class", "using namespace std;", "inside-class"),
    ("concept-in-class", "template <typename T> concept Cq = true;", "inside-class"),
    ("extern-block-in-class", "extern \"C\" { int q; }", "inside-class"),
    ("extern-template-in-class", "extern template class Q<int>;", "inside-class"),
    ("pp-define", "#define X 1", "always"),
    ("pp-if", "#if 1", "always"),
    ("pp-ifdef", "#ifdef A", "always"),
    ("pp-endif", "#endif", "always"),
    ("pp-undef", "#  undef A", "always"),
    ("illegal-dollar", "int $v;", "always"),
    ("illegal-at", "int v = 3 @ 4;", "always"),
    ("illegal-backtick", "int `v;", "always"),
    ("bad-octal", "int v = 09;", "always"),
    ("empty-char", "char c = '';", "always"),
    ("unmatched-quote", "char c = 'a;", "always"),
    ("bad-escape", "const char *s = \"a\\@b\";", "always"),
    ("mutable-variable", "mutable int v;", "outside-class"),
    ("virtual-function", "virtual void vf();", "outside-class"),
    ("explicit-function", "explicit void ef();", "outside-class"),
    ("virtual-field", "virtual int v;", "inside-class-skip"),
    ("mutable-parameter", "void f(mutable int p);", "always"),
    ("virtual-typedef", "typedef virtual int T;", "always"),
    ("static-parameter", "void f(static int p);", "always"),
    ("empty-block", "{ int v; }", "always"),
    ("incomplete-include", "#include", "always"),
    # a closer of the wrong kind in every construct whose brackets the parser tracks
    ("mismatched-in-declspec", "__declspec(a]) int v;", "always"),
    ("mismatched-open-in-declspec", "__declspec([a) int v;", "always"),
    ("mismatched-in-gcc-attribute", "__attribute__((a(])) int v;", "always"),
    ("mismatched-in-alignas", "alignas(4]) int v;", "always"),
    ("mismatched-in-call", "int v = f(1];", "always"),
    ("mismatched-in-template-arg", "T<(1]> v;", "always"),
    ("mismatched-in-default-arg", "void f(int a = (1]);", "always"),
    ("mismatched-in-noexcept", "void f() noexcept(1]);", "always"),
    ("mismatched-in-decltype", "decltype(1]) v;", "always"),
    ("mismatched-in-enumerator", "enum E { A = (1] };", "always"),
    ("mismatched-in-template-default", "template <int N = (1]> void f();", "always"),
    ("mismatched-brace-in-array", "int v[2}];", "always"),
    ("mismatched-in-alias", "using U = T<(1}>;", "always"),
    ("mismatched-in-base", "struct D : B<(1]> {};", "always"),
    ("illegal-formfeed-last", "int v;\f", "always"),
    ("illegal-nbsp", "int\xa0v;", "always"),
    ("illegal-vtab-then-blanks", "int v;\v  \n\n", "always"),
]


# line-directive preambles: (text before 'int before;', text after it)
PREAMBLES = [("", ""), ('#line 100 "a.h"\n', ""), ('#line 100 "a.h"\n', '#line 5 "b.h"\n'), ('# 1 "x.h"\n# 1 "<built-in>"\n# 31 "x.h"\n', ""),
             ("", '# 7 "dir/in put.h"\n'), ('#line 3 "a.h"\nint a0;\n#line 50 "b.h"\n', '#line 9 "a.h"\n')]
_LINE_DIRECTIVE = __import__("re").compile(r'#[ \t]*(?:line)? (\d+) "(.*)"$')


def presumed_lines(src, fname):
    """reference reading of #line / # N "file" directives: set of (file, presumed line) of all physical lines"""
    image, f, n = set(), fname, 1
    for line in src.split("\n"):
        m = _LINE_DIRECTIVE.match(line)
        if m:
            f, n = m.group(2), int(m.group(1))
            continue
        image.add((f, n))
        n += 1
    return image


def check_located(msg, image, e):
    if e.__cause__ is None:
        return "CxxParseError without a cause"
    if any(msg.startswith(f"{f}:{n}: ") for f, n in image):
        return None
    return f"message does not start with a <file>:<line> that a line of the input has under its #line directives: {msg[:70]!r}"


def breaker_judge(ci, bi, pi=0):
    from cxxheaderparser.simple import parse_string
    from cxxheaderparser.errors import CxxParseError

    cname, ctmpl, in_class = CONTEXTS[ci]
    bname, btext, where = BREAKERS[bi]
    applies = (where == "always" or (where == "always-global" and cname == "global") or (where == "outside-class" and not in_class)
               or (where == "inside-class" and in_class))
    if not applies:
        return None, None
    pre, mid = PREAMBLES[pi]
    src = pre + "int before;\n" + mid + ctmpl.format(X=btext) + "int after;\n"
    nlines = src.count("\n") + 1
    try:
        parse_string(src, filename=FNAME)
    except CxxParseError as e:
        if pi:
            return src, check_located(str(e), presumed_lines(src, FNAME), e)
        return src, check_message(str(e), nlines, e)
    except Exception as e:  # noqa
        return src, f"{type(e).__name__} escaped: {e}"
    return src, "rule-breaking input was accepted"


def h_breakers(c0: int, c1: int, c2: int) -> bool:
    """
    post: _
    """
    with NoTracing():
        ch = Chooser([c0, c1, c2])
        ci = ch.pick(len(CONTEXTS))
        bi = ch.pick(len(BREAKERS))
        pi = ch.pick(len(PREAMBLES))
        if TWIN:
            return False
        return breaker_judge(ci, bi, pi)[1] is None


def trunc_judge(pi, cut):
    from .c09 import prog_cache, token_gaps
    from cxxheaderparser.simple import parse_string
    from cxxheaderparser.errors import CxxParseError

    src = prog_cache()[pi].replace("; ", ";\n")
    offs = [0] + token_gaps(src) + [len(src)]
    text = src[: offs[cut % len(offs)]]
    nlines = text.count("\n") + 1
    try:
        parse_string(text, filename=FNAME)
        return text, None
    except CxxParseError as e:
        return text, check_message(str(e), nlines, e)
    except Exception as e:  # noqa
        return text, f"{type(e).__name__} escaped: {e}"


def h_trunc(c0: int, c1: int) -> bool:
    """
    post: _
    """
    with NoTracing():
        from .c09 import prog_cache, token_gaps

        ch = Chooser([c0, c1])
        progs = prog_cache()
        pi = ch.pick(len(progs))
        n = len(token_gaps(progs[pi].replace("; ", ";\n"))) + 2
        cut = ch.pick(n)
        if TWIN:
            return False
        return trunc_judge(pi, cut)[1] is None


# ---------------------------------------------------------------------------------------------
# (i) lexer level
# ---------------------------------------------------------------------------------------------

RULE = "t_error"


class _Lex:
    def __init__(self, lineno):
        self.lineno = lineno


class _T:
    pass


def h_errrule(value: str, lineno: int, offset: int) -> bool:
    """
    pre: 1 <= len(value) <= 5
    pre: lineno >= 1
    post: _
    """
    return _errrule_body(value, lineno, offset)


def _errrule_body(value, lineno, offset):
    from cxxheaderparser.lexer import PlyLexer, LexError

    with NoTracing():
        lx = PlyLexer.__new__(PlyLexer)
        lx.filename = "f"
        fake = _Lex(lineno)
        lx.lex = fake
        t = _T()
        t.lexer = fake
        t.type = "error"
        t.lineno = lineno
        t.lexpos = 0
    lx.line_offset = offset
    t.value = value
    try:
        getattr(PlyLexer, RULE)(lx, t)
    except LexError as e:
        if TWIN:
            return False
        loc = getattr(e.tok, "location", None)
        return e.tok is t and loc is not None and loc.filename == "f" and loc.lineno == lineno - offset
    return False


class _Opaque:
    """stands for an arbitrary token text by parametricity: it can only be formatted, any inspection raises"""

    def __str__(self):
        return "<text>"

    __repr__ = __str__

    def __format__(self, spec):
        return "<text>"


def h_errrule_opaque(lineno: int, offset: int) -> bool:
    """
    pre: lineno >= 1
    post: _
    """
    return _errrule_body(_Opaque(), lineno, offset)


def run(tier):
    from .. import chrun
    from cxxheaderparser.parser import CxxParser
    from cxxheaderparser.lexer import PlyLexer
    from cxxheaderparser._ply import lex as plylex
    from .c16 import classify_rules

    ck = Check("C06", tier)
    ck.encode(CxxParser.parse, CxxParser.__init__, CxxParser._parse_error, PlyLexer._error, PlyLexer.t_error, plylex.Lexer.token)
    alpha = reduced_alphabet()
    nfull, ncore = (2, 3) if tier == "quick" else (3, 3)
    ck.bounds = dict(reduced_alphabet=alpha, full_alphabet_tokens=nfull, core_alphabet=CORE, core_tokens=ncore, contexts=[c[0] for c in CONTEXTS], breakers=[b[0] for b in BREAKERS])
    ck.assume("token sequences are rendered with a blank or newline between tokens, file name 'dir/in put.h'",
              "error rules whose message formatting makes CrossHair fork per text are also run with an opaque text object that can only be formatted (parametricity: the rule then cannot depend on the text)",
              "RecursionError-class resource exhaustion is an Exception and therefore wrapped by parse(); BaseException is outside",
              "the reduced alphabet is recomputed from parser.py's AST on every run")
    ck.out_of_scope(f"token sequences longer than {nfull} (reduced alphabet) / {ncore} (core alphabet)", "byte-level mutations of long inputs")

    # (i) lexer level on the encoding: at every position rule / literal / t_error
    model = rx.LexModel()
    t = time.time()
    npairs, _, _ = rx.validate_translator(model, tier, ck.seed)
    ck.traces += npairs
    n = 5 if tier == "quick" else 8
    zd = rx.ZDom(n)
    comp = rx.Comp(zd)
    k0, e0 = model.tok_at(comp, 0)
    q = rx.Q()
    q.add(*zd.domain_constraints())
    q.push(); q.add(z3.Not(z3.Or(k0 >= 0, k0 == rx.LIT, k0 == rx.ERR))); r_total = q.check(); q.pop()
    q.push(); q.add(k0 >= 0, e0 <= 0); r_prog = q.check(); q.pop()
    q.push(); q.add(k0 == rx.ERR); r_err_reach = q.check(); q.pop()
    ck.add_queries("z3", q.n, q.secs)
    q.report(ck, "lexer totality")
    ck.states += q.n
    has_err = PlyLexer("f").lex.lexerrorf is not None
    ok_l = r_total == "unsat" and r_prog == "unsat" and has_err
    ck.sub("lexer: at every position a rule matches, or the character is a literal, or t_error is entered (t_error defined; matches non-empty)", "E-RX",
           "holds" if ok_l else "flagged", queries=q.n, bound=f"n={n}", t_error_reachable=r_err_reach)
    if not ok_l:
        body = "from cxxheaderparser.lexer import PlyLexer\nprint(PlyLexer('f').lex.lexerrorf)\nsys.exit(1)\n"
        ck.violation("PLY's internal LexError branch is reachable: no t_error rule or an empty match", ck.write_replay(body), key=dict(kind="lexer-total"))
    kinds = classify_rules(model, ck)
    # illegal characters: outside the C++ basic source character set (+ CR).  At a token start they must enter t_error, and
    # only literal / comment / directive-line rules (or error rules) may swallow one inside a match.
    ill = lambda c: z3.And([c != ord(x) for x in BASIC_SOURCE_CHARS])  # noqa
    containers = [i for i, (nm, _, _) in enumerate(model.rules)
                  if any(w in nm for w in ("STRING", "CHAR", "COMMENT", "INCLUDE_DIRECTIVE", "PP_DIRECTIVE")) or kinds.get(nm, ("", None))[0] == "error"]
    q2 = rx.Q()
    q2.add(*zd.domain_constraints())
    q2.push(); q2.add(ill(zd.ch(0)), k0 != rx.ERR); r_ill0 = q2.check(); m_ill0 = rx.model_string(q2.model(), zd.c) if r_ill0 == "sat" else None; q2.pop()
    q2.push()
    q2.add(k0 >= 0, *[k0 != i for i in containers], z3.Or([z3.And(e0 > i, ill(zd.ch(i))) for i in range(n)]))
    r_ill1 = q2.check(); m_ill1 = rx.model_string(q2.model(), zd.c) if r_ill1 == "sat" else None
    q2.pop()
    ck.add_queries("z3", q2.n, q2.secs)
    q2.report(ck, "illegal characters")
    ck.states += q2.n
    okc = r_ill0 == "unsat" and r_ill1 == "unsat"
    ck.sub("lexer: a character outside the basic source character set at a token start enters t_error; only literal / comment / directive rules may contain one",
           "E-RX", "holds" if okc else ("flagged" if "sat" in (r_ill0, r_ill1) else "inconclusive"), queries=q2.n, bound=f"n={n}, all code points", container_rules=len(containers))
    for wit in (m_ill0, m_ill1):
        if wit is None:
            continue
        body = ("from cxxheaderparser.lexer import PlyLexer, LexError\n" f"s = {wit!r}\nlx = PlyLexer('f'); lx.input(s)\n"
                "try:\n    t = lx.token()\nexcept LexError as e:\n    print('rejected', e); sys.exit(0)\n"
                "print('accepted as', t.type if t else None, repr(t.value) if t else ''); sys.exit(1)\n")
        p = ck.write_replay(body)
        ok, out = ck.run_replay(p)
        if not ok:
            raise HarnessError(f"illegal-character witness {wit!r} did not reproduce on the real lexer: {out[-200:]}")
        cp = next((c for c in wit if c not in BASIC_SOURCE_CHARS), "?")
        ck.violation(f"illegal character U+{ord(cp):04X} is accepted by the lexer (input {wit!r}): {out.strip()[-80:]}", p, key=dict(kind="illegal-char-accepted"))
    err_rules = [nm for nm, (k, _) in kinds.items() if k == "error"] + ["t_error"]
    pool = chrun.make_pool()
    try:
        tmo = 40.0 if tier == "quick" else 240.0
        futs = [(nm, pool.submit(chrun._work, __name__, "h_errrule", (), tmo, 10.0, dict(RULE=nm, TWIN=False)),
                 pool.submit(chrun._work, __name__, "h_errrule_opaque", (), tmo, 10.0, dict(RULE=nm, TWIN=False))) for nm in err_rules]
        tw = pool.submit(chrun._work, __name__, "h_errrule", (), 30.0, 10.0, dict(RULE="t_error", TWIN=True))
        bad_rules, conf, paths, by_param = [], 0, 0, []
        for nm, f, fo in futs:
            r, ro = f.result(), fo.result()
            paths += r["paths"] + ro["paths"]
            ck.add_queries("crosshair-z3", r["z3_checks"] + ro["z3_checks"], r["z3_s"] + ro["z3_s"])
            st = [s_ for s_, _ in r["msgs"]]
            sto = [s_ for s_, _ in ro["msgs"]]
            if any(s_ in ("POST_FAIL", "POST_ERR", "EXEC_ERR") for s_ in st):
                bad_rules.append((nm, next(m for s_, m in r["msgs"] if s_ in ("POST_FAIL", "POST_ERR", "EXEC_ERR"))))
            elif "CONFIRMED" in st:
                conf += 1
            elif "CONFIRMED" in sto:
                # the rule only formats the text (any inspection of the opaque stand-in would have raised): all texts by parametricity
                conf += 1
                by_param.append(nm)
            else:
                ck.undecided.append(f"error rule {nm}: symbolic text {st}, opaque text {sto}")
        ck.states += paths
        if not any(s_ == "POST_FAIL" for s_, _ in tw.result()["msgs"]):
            raise HarnessError("error-rule harness is vacuous")
        ck.sub("error rules and t_error raise LexError through _error with tok.location = current location (all texts, all line numbers)", "E-CH",
               "confirmed" if not bad_rules and conf == len(futs) else ("flagged" if bad_rules else "inconclusive"), rules=len(futs), confirmed=conf, paths=paths, confirmed_with_opaque_text=by_param)
        for nm, msg in bad_rules:
            ce = chrun.parse_counterexample(msg)
            args = ce[0] if ce else ["$", 1, 0]
            body = ("from vf.props import c06\n" f"c06.RULE = {nm!r}\nok = c06.h_errrule(*{list(args)!r})\nprint(ok)\nsys.exit(0 if ok else 1)\n")
            p = ck.write_replay(body)
            ok, out = ck.run_replay(p)
            if not ok:
                raise HarnessError(f"error-rule counterexample did not reproduce: {msg}")
            ck.violation(f"lexer error rule {nm} does not raise LexError with the token's location ({msg[:100]})", p, key=dict(kind="error-rule", rule=nm))

        # (ii) token sequences
        res_all = []
        for label, al, mt in (("reduced alphabet", alpha, nfull), ("core alphabet", CORE, ncore)):
            tail = 2 if (al is alpha and mt >= 3) else None
            g = dict(ALPHA=al, MAXTOK=mt, TAIL_FROM=tail)
            tw = chrun.run(__name__, "h_tokens", [(len(al),)], timeout=60, globs=dict(g, TWIN=True), pool=pool)
            chrun.record(ck, tw, f"token sequences reachability twin ({label})", expect="refuted")
            if mt <= 2:
                shards = [(a,) for a in range(len(al) + 1)]
            else:
                shards = [(a, b) for a in range(len(al)) for b in range(len(al) + 1)] + [(len(al),)]
            r = chrun.run(__name__, "h_tokens", shards, timeout=(200 if tier == "quick" else 2400), globs=g, pool=pool)
            chrun.record(ck, r, f"all token sequences ({label}): return or CxxParseError '<file>:<existing line>: ...' with a cause", bound=f"<= {mt} tokens over {len(al)} spellings" + (f" (the third token from the {len(CORE)}-spelling core)" if tail else ""))
            res_all.append((al, mt, r, tail))
        # (iii)
        tw = chrun.run(__name__, "h_breakers", [(0, 1, 0)], timeout=60, globs=dict(TWIN=True), pool=pool)
        chrun.record(ck, tw, "rule breakers reachability twin", expect="refuted")
        rb = chrun.run(__name__, "h_breakers", [(a,) for a in range(len(CONTEXTS))], timeout=120, pool=pool)
        chrun.record(ck, rb, "rule-breaking constructs in every block context are rejected with a located CxxParseError", bound=f"{len(CONTEXTS)} contexts x {len(BREAKERS)} constructs x {len(PREAMBLES)} #line preambles")
        from .c09 import prog_cache

        rt = chrun.run(__name__, "h_trunc", [(a,) for a in range(len(prog_cache()))], timeout=(150 if tier == "quick" else 600), pool=pool)
        chrun.record(ck, rt, "truncation of every program at every token boundary: return or located CxxParseError", bound=f"{len(prog_cache())} programs")
    finally:
        pool.shutdown()
    seen = set()
    for al, mt, r, tail in res_all:
        for shard, args, kw, msg in r.counterexamples:
            toks, bad = tokens_replay(list(shard) + list(args), al, mt, tail)
            ck.traces += 1
            if bad is None:
                raise HarnessError(f"token-sequence counterexample did not reproduce: {msg} {toks}")
            sig = bad[:45]
            if sig in seen or len(seen) > 10:
                continue
            seen.add(sig)
            body = ("from vf.props import c06\n" f"toks, bad = c06.tokens_replay({list(shard) + list(args)!r}, {al!r}, {mt}, {tail!r})\nprint(toks); print(bad)\nsys.exit(1 if bad else 0)\n")
            ck.violation(f"tokens {toks}: {bad}", ck.write_replay(body), key=dict(kind="tokens", what=sig))
    seen = set()
    for shard, args, kw, msg in rb.counterexamples:
        ch = Chooser(list(shard) + list(args), prefix=())
        ci, bi, pi = ch.pick(len(CONTEXTS)), ch.pick(len(BREAKERS)), ch.pick(len(PREAMBLES))
        src, bad = breaker_judge(ci, bi, pi)
        ck.traces += 1
        if bad is None:
            raise HarnessError(f"breaker counterexample did not reproduce: {msg}")
        body = ("from vf.props import c06\n" f"src, bad = c06.breaker_judge({ci}, {bi}, {pi})\nprint(src); print(bad)\nsys.exit(1 if bad else 0)\n")
        ck.violation(f"{BREAKERS[bi][0]} in context {CONTEXTS[ci][0]} (line-directive preamble {pi}): {bad}  ({src!r})", ck.write_replay(body), key=dict(kind="breaker", breaker=BREAKERS[bi][0], context=CONTEXTS[ci][0]))
    for shard, args, kw, msg in rt.counterexamples[:5]:
        ch = Chooser(list(shard) + list(args), prefix=())
        from .c09 import token_gaps

        pi = ch.pick(len(prog_cache()))
        cut = ch.pick(len(token_gaps(prog_cache()[pi].replace("; ", ";\n"))) + 2)
        text, bad = trunc_judge(pi, cut)
        ck.traces += 1
        if bad is None:
            raise HarnessError(f"truncation counterexample did not reproduce: {msg}")
        body = ("from vf.props import c06\n" f"text, bad = c06.trunc_judge({pi}, {cut})\nprint(repr(text)); print(bad)\nsys.exit(1 if bad else 0)\n")
        ck.violation(f"truncated input {text[-60:]!r}: {bad}", ck.write_replay(body), key=dict(kind="truncation"))
    ck.sample(dict(reduced_alphabet=alpha))
    ck.sample(dict(example=tokens_replay([3, 9, 1, 99], CORE, 3)[0]))
    ck.extra["explanation"] = "z3 on the lexer encoding; CrossHair over error rules (symbolic text / line) and exhaustively over token sequences, rule breakers x contexts and truncations"
    return ck
