"""C10 - reported line numbers and file names are the real ones.

Arithmetic (E-CH traced, all integers): the real t_PP_DIRECTIVE + _line_re + current_location with symbolic
physical line, directive number, distance, previous offset and a symbolic file name: a token lexed d >= 1 lines
after `#line N "f"` / `# N "f"` is reported at N + d - 1 in f.  One directive step is inductive because the
offset is overwritten, not accumulated.
Plumbing (E-CH traced, all line assignments): the real LexerTokenStream + CxxParser run over a stub PLY lexer that
replays the tokens of a program with *symbolic, strictly increasing* line numbers; every declaration callback must
carry a location inside its declaration's extent (its own line when written on one line) and the file name.
Lexer line counting itself is C08 (E-RX + E-CH); end to end (real lexer, enumerated preambles incl. #line and
error positions) ties the three together.
"""
import time

from crosshair.tracers import NoTracing

from ..common import Check, HarnessError
from ..chrun import Chooser
from .. import stublex
from ..recorder import Recorder

TWIN = False

# ---------------------------------------------------------------------------------------------
# (a) #line arithmetic
# ---------------------------------------------------------------------------------------------


def h_line(L: int, N: int, d: int, off0: int, form: bool) -> bool:
    """
    pre: L >= 1 and 0 <= N < 1000000 and d >= 1
    post: _
    """
    return line_step(L, N, d, off0, form, "inc/other.h")


def h_line_name(fname: str, form: bool, L: int) -> bool:
    """
    pre: 1 <= len(fname) <= 7
    pre: all(c not in fname for c in (chr(34), chr(10), chr(13)))
    pre: 1 <= L <= 3
    post: _
    """
    return line_step(L, 42, 2, 0, form, fname)


def line_step(L, N, d, off0, form, fname):
    from cxxheaderparser import lexer as lexmod
    from cxxheaderparser._ply import lex as plylex

    with NoTracing():
        lx = lexmod.PlyLexer("orig.h")
    lx.line_offset = off0
    lx.lex.lineno = L
    t = plylex.LexToken()
    t.type = "PP_DIRECTIVE"
    t.value = ("#line " if form else "# ") + str(N) + ' "' + fname + '"'
    t.lineno = L
    t.lexpos = 0
    r = lx.t_PP_DIRECTIVE(t)
    # the directive itself does not move the physical line counter
    if lx.lex.lineno != L:
        return False
    lx.lex.lineno = L + d
    loc = lx.current_location()
    if TWIN:
        return False
    return r is None and loc.filename == fname and loc.lineno == N + d - 1


def h_noline(L: int, off0: int) -> bool:
    """
    pre: L >= 1
    post: _
    """
    # without a directive the offset stays what it was (0 on a fresh lexer): reported line == physical line
    from cxxheaderparser import lexer as lexmod

    with NoTracing():
        lx = lexmod.PlyLexer("orig.h")
    if lx.line_offset != 0:
        return False
    lx.lex.lineno = L
    loc = lx.current_location()
    return loc.filename == "orig.h" and loc.lineno == L


# ---------------------------------------------------------------------------------------------
# (c) plumbing with symbolic line numbers
# ---------------------------------------------------------------------------------------------

ASSERTED = {
    "on_variable", "on_function", "on_method_impl", "on_typedef", "on_using_namespace", "on_using_alias", "on_using_declaration",
    "on_enum", "on_forward_decl", "on_class_field", "on_class_method", "on_class_friend", "on_include",
    "on_class_start", "on_class_end", "on_namespace_start", "on_namespace_end", "on_extern_block_start", "on_extern_block_end",
    "on_deduction_guide",
}


def D(text, events=1):
    return ("d", text, events)


def B(header, children, footer, trailer=0):
    return ("b", header, children, footer, trailer)


PROGRAMS = [
    [
        D("int a;"), D("static const int b = 3;"), D("int c,\n    *d,\n    e[2];", 3), D("void f(int x,\n       int y);"),
        D("typedef int T, *PT;", 2), D("using U = int;"), D("using namespace std;"), D("using std::vector;"),
        D("enum E { A,\n         B };"), D("struct Fwd;"), D("template <typename T>\nT tf(T t);"), D('#include "x.h"'),
        D("enum class EC : int;"), D("extern int ext;"), D("template <class T> struct Box;"),
    ],
    [
        B("struct S {", [
            D("int a;"), D("void m();"), D("S();"), D("~S();"), D("friend class F;"), D("friend void ff();"),
            B("struct N {", [D("int n;")], "};"),
            D("enum { X };"), D("typedef int TT;"), D("using UU = int;"),
            D("private:", 0), D("int b : 3,\n    c;", 2), D("static void sm(int);"), D("using Base::x;"),
            D("operator bool() const;"), D("explicit operator int *();"), D("S &operator=(const S &);"), D("template <typename Q>\noperator Q() const;"),
            D("virtual void vm() = 0;"), D("int dm = 3;"),
        ], "} s1, *s2;", 2),
        D("int after;"),
    ],
    [
        B("namespace A {", [
            B("namespace B::C {", [D("int bc;")], "}"),
            B('extern "C" {', [D("int ec;"), D("void g(void);")], "}"),
            D("inline int il() { return 1; }"),
            D("void S::impl() {\n}\n"),
        ], "}"),
        B("typedef struct {", [D("int q;")], "} Q, *PQ;", 2),
        B("template <typename T>\nclass C : public B<T> {", [D("T t;"), D("template <typename U> void mt(U);")], "};"),
        B("union U {", [B("struct {", [D("int i;")], "};", 1), D("float f;")], "};"),
        D("C(int) -> C<int>;"),
    ],
]


def render_program(nodes):
    """returns (text, [(first_line, last_line, kind)] per expected event in order)"""
    lines = []
    events = []

    def emit(node):
        if node[0] == "d":
            _, text, n = node
            tl = text.rstrip("\n").split("\n")
            first = len(lines) + 1
            lines.extend(tl)
            last = len(lines)
            for _ in range(n):
                events.append((first, last, "decl"))
        else:
            _, header, children, footer, trailer = node
            hl = header.split("\n")
            first = len(lines) + 1
            lines.extend(hl)
            hlast = len(lines)
            events.append((first, hlast, "start"))
            slot = len(events)
            for c in children:
                emit(c)
            fl = footer.split("\n")
            ffirst = len(lines) + 1
            lines.extend(fl)
            last = len(lines)
            events.append((first, last, "end"))
            for _ in range(trailer):
                events.append((ffirst, last, "trailer"))

    for nd in nodes:
        emit(nd)
    return "\n".join(lines) + "\n", events


def h_plumb(prog: int, base: int, i1: int, i2: int, i3: int, i4: int, i5: int, i6: int, i7: int, i8: int) -> bool:
    """
    pre: base >= 1
    pre: i1 >= 1 and i2 >= 1 and i3 >= 1 and i4 >= 1 and i5 >= 1 and i6 >= 1 and i7 >= 1 and i8 >= 1
    post: _
    """
    with NoTracing():
        text, events = render_program(PROGRAMS[PROG])
        raws = stublex.raw_tokens(text)
        nl = text.count("\n") + 3
        incs = [i1, i2, i3, i4, i5, i6, i7, i8]
    # symbolic strictly increasing line numbers: line p -> base + sum of the first p-1 increments (increments cycle)
    linemap = [0, base]
    p = 2
    while p <= nl:
        linemap.append(linemap[p - 1] + incs[(p - 2) % 8])
        p += 1
    with NoTracing():
        rec = Recorder()
        parser = stublex.make_parser(raws, rec, filename="dir/f.h", linemap=linemap)
    parser.parse()
    if TWIN:
        return False
    evs = [e for e in rec.events if e.name != "on_parse_start"]
    if len(evs) != len(events):
        return False
    k = 0
    while k < len(evs):
        ev = evs[k]
        first, last, kind = events[k]
        if ev.name in ASSERTED:
            loc = ev.location
            if loc.filename != "dir/f.h":
                return False
            if not (linemap[first] <= loc.lineno and loc.lineno <= linemap[last]):
                return False
        k += 1
    return True


PROG = 0


def plumb_concrete(prog):
    """concrete run (identity line map): list of (event name, location, expected extent)"""
    text, events = render_program(PROGRAMS[prog])
    raws = stublex.raw_tokens(text)
    rec = Recorder()
    stublex.make_parser(raws, rec, filename="dir/f.h").parse()
    evs = [e for e in rec.events if e.name != "on_parse_start"]
    return text, [(e.name, tuple(e.location)) for e in evs], events


def anon_member_location():
    """`union U { struct { int i; }; };`: the Field for the anonymous member must be located inside lines 2..4"""
    from cxxheaderparser.parser import CxxParser

    rec = Recorder()
    CxxParser("f.h", "union U {\n  struct {\n    int i;\n  };\n  float f;\n};\n", rec, None).parse()
    locs = [e.location.lineno for e in rec.events if e.name == "on_class_field" and e.payload[0].name is None]
    if len(locs) != 1:
        return f"expected exactly one anonymous member field, got {locs}"
    if not (2 <= locs[0] <= 4):
        return f"anonymous struct member written on lines 2-4 is delivered with location line {locs[0]}"
    return None


# ---------------------------------------------------------------------------------------------
# (d) end to end with the real lexer: preambles and error positions
# ---------------------------------------------------------------------------------------------

PRE = [
    ("blank", "\n", 1, None),
    ("blank3", "\n\n\n", 3, None),
    ("comment2", "/* a\n b */\n", 2, None),
    ("comment1", "// c\n", 1, None),
    ("doccomment", "/** d\n * e\n */\n", 3, None),
    ("decl-continued", "int k = 1 + \\\n 2;\n", 2, None),
    ("crlf", "int w;\r\n", 1, None),
    ("crlf-blank2", "\r\n\r\n", 2, None),
    ("blank-with-blanks", "  \n\t\n", 2, None),
    ("decl-then-blank-with-blanks", "int z0;  \n   \n", 2, None),
    ("line", '#line 100 "g.h"\n', None, (100, "g.h")),
    ("hash", '# 7 "dir/h.h" 2\n', None, (7, "dir/h.h")),
    ("ml-decl", "void fn(int a,\n        int b);\n", 2, None),
]
PROBES = [
    ("variable", "int probe;\n", "on_variable"),
    ("function", "void probe();\n", "on_function"),
    ("class", "struct probe {};\n", "on_class_start"),
    ("error-brace", "}\n", None),
    ("error-char", "int $x;\n", None),
    ("error-define", "#define X 1\n", None),
]
E_MAXPRE = 3


def e2e_build(ch):
    """(text, expected file, expected line, probe)"""
    text = ""
    fname = "main.h"
    line = 1
    n = 0
    while n < E_MAXPRE:
        k = ch.pick(len(PRE) + 1)
        if k == len(PRE):
            break
        name, t, dl, rebase = PRE[k]
        text += t
        if rebase is None:
            line += dl
        else:
            line, fname = rebase
        n += 1
    probe = PROBES[ch.pick(len(PROBES))]
    return text + probe[1] + "int trailing;\n", fname, line, probe


def e2e_judge(text, fname, line, probe, shift=0):
    from cxxheaderparser.parser import CxxParser
    from cxxheaderparser.errors import CxxParseError

    name, ptext, cb = probe
    src = "\n" * shift + text
    rebased = fname != "main.h"
    want_line = line + (0 if rebased else shift)
    rec = Recorder()
    try:
        CxxParser("main.h", src, rec, None).parse()
        err = None
    except CxxParseError as e:
        err = str(e)
    if cb is None:
        if err is None:
            return "rule-breaking probe was accepted"
        pre = f"{fname}:{want_line}: "
        if not err.startswith(pre):
            return f"error message {err!r} does not start with {pre!r}"
        return None
    if err is not None:
        return f"unexpected parse error {err}"
    locs = [tuple(e.location) for e in rec.events if e.name == cb and (e.payload[0].name.segments[-1].name if cb != "on_class_start" else e.state.class_decl.typename.segments[-1].name) == "probe"]
    if locs != [(fname, want_line)]:
        return f"{cb} for the probe reported at {locs}, expected {(fname, want_line)}"
    return None


def h_e2e(c0: int, c1: int, c2: int, c3: int, c4: int, c5: int) -> bool:
    """
    post: _
    """
    with NoTracing():
        ch = Chooser([c0, c1, c2, c3, c4, c5])
        text, fname, line, probe = e2e_build(ch)
        shift = ch.pick(3)
        bad = e2e_judge(text, fname, line, probe, shift)
        if TWIN:
            return False
        return bad is None


def e2e_replay(vals):
    ch = Chooser(list(vals), prefix=())
    text, fname, line, probe = e2e_build(ch)
    shift = ch.pick(3)
    return text, fname, line, probe, shift, e2e_judge(text, fname, line, probe, shift)


def run(tier):
    from .. import chrun
    from cxxheaderparser.lexer import PlyLexer, LexerTokenStream
    from cxxheaderparser.parser import CxxParser

    ck = Check("C10", tier)
    ck.encode(PlyLexer.t_PP_DIRECTIVE, PlyLexer.current_location, LexerTokenStream._fill_tokbuf, LexerTokenStream.current_location,
              CxxParser._parse_declarations, CxxParser._parse_field, CxxParser._parse_function, CxxParser._parse_using,
              CxxParser._parse_enum_decl, CxxParser._maybe_parse_class_enum_decl, CxxParser._process_include_directive, CxxParser.parse)
    ck.bounds = dict(arithmetic="all integers L>=1, 0<=N<10^6, d>=1, any previous offset, file names <=4 chars", plumbing_programs=len(PROGRAMS),
                     plumbing_lines="all strictly increasing line assignments (8 cycling symbolic increments)", e2e_preamble_elements=E_MAXPRE if tier == "quick" else 4)
    ck.assume("file names in #line directives contain no double quote or newline",
              "plumbing: character-level lexing is replaced by a replay of the real lexer's tokens with symbolic line numbers (line counting is C08)",
              "callbacks asserted: " + ", ".join(sorted(ASSERTED)) + "; on_pragma / on_namespace_alias / on_concept / on_template_inst carry no location assignment in the documented mechanism and are not asserted")
    ck.out_of_scope("#line inside a multi-line construct", "program shapes outside the listed ones")
    for prog in range(len(PROGRAMS)):
        text, evs, exp = plumb_concrete(prog)
        if len(evs) != len(exp):
            raise HarnessError(f"plumbing program {prog}: {len(evs)} callbacks, oracle expects {len(exp)}: {[e[0] for e in evs]}")
        ck.sample(dict(program=prog, source=text[:400], events=[(n, l[1], (f, la)) for (n, l), (f, la, _) in zip(evs, exp)][:12]), limit=6)
    pool = chrun.make_pool()
    try:
        tw = chrun.run(__name__, "h_line", [()], timeout=60, globs=dict(TWIN=True), pool=pool)
        chrun.record(ck, tw, "#line arithmetic reachability twin", expect="refuted")
        res = chrun.run(__name__, "h_line", [()], timeout=(120 if tier == "quick" else 600), pool=pool)
        chrun.record(ck, res, "#line arithmetic on the real t_PP_DIRECTIVE / _line_re / current_location", bound="all integers, both spellings")
        resn = chrun.run(__name__, "h_line_name", [()], timeout=(90 if tier == "quick" else 600), pool=pool)
        chrun.record(ck, resn, "#line: the reported file name is exactly the quoted name", bound="all names <= 7 chars without quote/newline, both spellings")
        res0 = chrun.run(__name__, "h_noline", [()], timeout=60, pool=pool)
        chrun.record(ck, res0, "no directive: reported line == physical line (fresh lexer offset 0)", bound="all integers")
        import concurrent.futures as _cf

        def one(prog):
            tw_ = chrun.run(__name__, "h_plumb", [()], timeout=60, globs=dict(PROG=prog, TWIN=True), pool=pool)
            r_ = chrun.run(__name__, "h_plumb", [()], timeout=(150 if tier == "quick" else 900), globs=dict(PROG=prog), pool=pool)
            return prog, tw_, r_

        plumb = []
        with _cf.ThreadPoolExecutor(4) as tp:
            for prog, tw_, r_ in tp.map(one, range(len(PROGRAMS))):
                chrun.record(ck, tw_, f"plumbing program {prog} reachability twin", expect="refuted")
                chrun.record(ck, r_, f"plumbing program {prog}: every declaration callback carries a location inside its extent", bound="all strictly increasing line numbers")
                plumb.append((prog, r_))
        emax = E_MAXPRE if tier == "quick" else 4
        tw = chrun.run(__name__, "h_e2e", [(len(PRE), 0)], timeout=60, globs=dict(TWIN=True, E_MAXPRE=emax), pool=pool)
        chrun.record(ck, tw, "end-to-end reachability twin", expect="refuted")
        shards = [(a, b) for a in range(len(PRE)) for b in range(len(PRE) + 1)] + [(len(PRE),)]
        res3 = chrun.run(__name__, "h_e2e", shards, timeout=(150 if tier == "quick" else 1200), globs=dict(E_MAXPRE=emax), pool=pool)
        chrun.record(ck, res3, "end to end (real lexer): preamble x probe x shift -> reported file:line", bound=f"<= {emax} preamble elements of {len(PRE)} kinds, {len(PROBES)} probes, shift 0..2")
    finally:
        pool.shutdown()
    for shard, args, kw, msg in res.counterexamples[:1]:
        vals = dict(zip(["L", "N", "d", "off0", "form"], args))
        vals.update(kw)
        body = ("from vf.props import c10\n" f"ok = c10.h_line(**{vals!r})\nprint({vals!r}, '->', ok)\nsys.exit(0 if ok else 1)\n")
        p = ck.write_replay(body)
        ok, out = ck.run_replay(p)
        ck.traces += 1
        if not ok:
            raise HarnessError(f"#line counterexample did not reproduce: {msg}\n{out}")
        ck.violation(f"#line arithmetic: directive {vals} is not reported as N + d - 1 in the named file", p, key=dict(kind="line-arith"))
    for shard, args, kw, msg in resn.counterexamples[:1]:
        body = ("from vf.props import c10\n" f"ok = c10.h_line_name(*{list(args)!r}, **{kw!r})\nprint(ok)\nsys.exit(0 if ok else 1)\n")
        p = ck.write_replay(body)
        ok, out = ck.run_replay(p)
        ck.traces += 1
        if not ok:
            raise HarnessError(f"#line name counterexample did not reproduce: {msg}\n{out}")
        ck.violation(f"#line: reported file name differs from the quoted name ({msg[:120]})", p, key=dict(kind="line-name"))
    # D13 (fixed in /repo): the promoted anonymous struct/union member must be located inside the member
    r13 = anon_member_location()
    ck.traces += 1
    if r13:
        body = ("from vf.props import c10\n" "r = c10.anon_member_location()\nprint(r)\nsys.exit(1 if r else 0)\n")
        ck.violation(r13, ck.write_replay(body), key=dict(kind="plumbing-anon-member"))
    for prog, r_ in plumb:
        for shard, args, kw, msg in r_.counterexamples[:1]:
            vals = list(args)
            body = ("from vf.props import c10\n" f"c10.PROG = {prog}\nok = c10.h_plumb(*{vals!r}, **{kw!r})\n"
                    f"text, evs, exp = c10.plumb_concrete({prog})\nprint(text)\nfor (n, l), e in zip(evs, exp): print(n, l, 'extent', e)\nsys.exit(0 if ok else 1)\n")
            p = ck.write_replay(body)
            ok, out = ck.run_replay(p)
            ck.traces += 1
            if not ok:
                raise HarnessError(f"plumbing counterexample did not reproduce: {msg}\n{out[-800:]}")
            ck.violation(f"plumbing program {prog}: a declaration callback carries a location outside its declaration ({msg[:100]})", p, key=dict(kind="plumbing", prog=prog))
    globals()["E_MAXPRE"] = emax
    seen = set()
    for shard, args, kw, msg in res3.counterexamples:
        text, fname, line, probe, shift, bad = e2e_replay(list(shard) + list(args))
        ck.traces += 1
        if bad is None:
            raise HarnessError(f"end-to-end counterexample did not reproduce: {msg}")
        k = (probe[0], bad[:30])
        if k in seen:
            continue
        seen.add(k)
        body = ("from vf.props import c10\n" f"c10.E_MAXPRE = {emax}\nr = c10.e2e_replay({list(shard) + list(args)!r})\nprint(repr(r[0])); print(r[1:])\nsys.exit(1 if r[-1] else 0)\n")
        ck.violation(f"{bad}  (source {text!r}, shift {shift})", ck.write_replay(body), key=dict(kind="e2e", probe=probe[0]))
    ck.extra["explanation"] = ("CrossHair: #line arithmetic for all integers on the real directive code; location plumbing for all strictly increasing "
                               "line assignments through the real token stream and parser; enumerated end-to-end preambles through the real lexer")
    return ck
