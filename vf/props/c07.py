"""C07 - parsing time is polynomially bounded.

Lexer (E-RX): (1) for every unbounded repeat of every token rule (and of the auxiliary patterns applied to
token texts) ask z3 whether some string of <= n code points lets the repeat consume one span in two
different ways (exponential ambiguity); (2) per rule, the backtracking step count as a linear-arithmetic
term, maximised with z3's optimiser for growing n; flagged when it triples per two characters.
Every flagged witness is pumped and the REAL lexer is timed; only measured exponential growth is reported.
Parser (E-CH): token-read counter of the balanced-consumption kernels over all bracket soups, and pumped
nesting families through parse_string.
"""
import re
import sys
import time
import re._parser as sp
import re._constants as sc

import z3

from .. import rx
from ..common import Check, HarnessError


# ---------------------------------------------------------------------------------------------
# concrete timing of the real lexer on a pumped family (replay side)
# ---------------------------------------------------------------------------------------------

TIMING_SNIPPET = r'''
import sys, time
from cxxheaderparser.simple import parse_string
from cxxheaderparser.errors import CxxParseError

def measure(prefix, unit, suffix, ks, budget=4.0):
    out = []
    for k in ks:
        s = prefix + unit * k + suffix
        best = None
        for _ in range(2):
            t = time.perf_counter()
            try:
                parse_string(s)
            except CxxParseError:
                pass
            dt = time.perf_counter() - t
            best = dt if best is None else min(best, dt)
        out.append((k, len(s), best))
        if best > budget:
            break
    return out

def exponential(times, floor=0.004, ratio=1.8, need=3):
    """>= `need` consecutive steps (k -> k+2) each multiplying the time by >= ratio, above the noise floor"""
    run = 0
    for (k0, _, t0), (k1, _, t1) in zip(times, times[1:]):
        if t0 >= floor and t1 / t0 >= ratio:
            run += 1
            if run >= need:
                return True
        else:
            run = 0
    return False
'''

_ns = {}
exec(TIMING_SNIPPET, _ns)
measure, exponential = _ns["measure"], _ns["exponential"]
KS = list(range(10, 41, 2))


def timed_family(prefix, unit, suffix):
    """run the measurement in a child process (a genuine blow-up must not hang the check)"""
    import json
    import subprocess

    code = TIMING_SNIPPET + f"\nimport json\nprint(json.dumps(measure({prefix!r}, {unit!r}, {suffix!r}, {KS!r})))\n"
    try:
        r = subprocess.run([sys.executable, "-c", code], capture_output=True, text=True, timeout=120)
    except subprocess.TimeoutExpired:
        return None
    if r.returncode != 0:
        return None
    try:
        return [tuple(x) for x in json.loads(r.stdout.strip().splitlines()[-1])]
    except Exception:
        return None


def pump_candidates(w, i=None, e=None):
    """families (prefix, unit, suffix) derived from a witness string"""
    fams = []
    spans = []
    if i is not None:
        spans.append((i, e))
    for a in range(len(w)):
        for L in (1, 2, 3):
            if a + L <= len(w):
                spans.append((a, a + L))
    seen = set()
    for a, b in spans:
        for suf in (w[b:], "", "\x01", w[b:] + "\x01"):
            key = (w[:a], w[a:b], suf)
            if key not in seen and w[a:b]:
                seen.add(key)
                fams.append(key)
    return fams


# how the text an auxiliary pattern is applied to is reached through parse_string (prefix, suffix around the pumped text)
AUX_WRAP = {"_multicomment_re": ("/** d", " z */\nint v;\n")}


def confirm_blowup(ck, w, i=None, e=None, limit=40, rule=None):
    """try pumped families of witness w on the real code; returns (family, times) of the first exponential one"""
    fams = pump_candidates(w, i, e)[:limit]
    if rule in AUX_WRAP:
        pre, suf = AUX_WRAP[rule]
        fams = [(pre + p_, u_, s_ + suf) for p_, u_, s_ in fams] + fams
    for fam in fams:
        times = timed_family(*fam)
        ck.traces += 1
        if times and exponential(times):
            return fam, times
    return None, None


# ---------------------------------------------------------------------------------------------


def aux_patterns():
    """other compiled patterns the lexer / parser apply to token text"""
    from cxxheaderparser import lexer as lx, parser as ps

    out = []
    for mod, names in ((lx, ["_line_re", "_multicomment_re"]),
                       (ps.CxxParser, ["_preprocessor_compress_re", "_preprocessor_split_re"])):
        for nm in names:
            p = getattr(mod, nm, None)
            if isinstance(p, re.Pattern):
                out.append((nm, p))
    return out


def star_ambiguity(ck, model, n, q):
    """(rule name, witness, i, e) for every unbounded repeat that can consume a span in two ways, |w| <= n"""
    zd = rx.ZDom(n)
    comp = rx.Comp(zd)
    q.add(*zd.domain_constraints())
    flagged = []
    inst = 0
    trees = [(nm, a) for nm, a, _ in model.rules]
    for nm, p in aux_patterns():
        try:
            trees.append((nm, tuple(sp.parse(p.pattern, p.flags))))
        except Exception as ex:  # noqa
            ck.skip(f"ambiguity of {nm}", f"pattern not parsable: {ex}")
    for nm, a in trees:
        amb = rx.Amb(comp)
        amb.keep.append(a)
        try:
            for start in range(0, 2):
                amb.seq(a, 0, start)
        except NotImplementedError as ex:
            ck.skip(f"ambiguity of {nm}", f"construct outside the encoder: {ex}")
            continue
        try:
            rule_ends, _ = amb.seq(a, 0, 0)
        except NotImplementedError:
            rule_ends = {}
        per_node = {}
        for item, i, e, c in amb.stars:
            if c is False:
                continue
            inst += 1
            if id(item) in per_node and per_node[id(item)][4]:
                continue
            q.push()
            q.add(c)
            r = q.check()
            if r == "sat":
                w = rx.model_string(q.model(), zd.c)
                ctx = False
                # prefer a witness in which the whole rule also matches (prefix that reaches the repeat)
                full = rx.OR([cond for e2, cond in rule_ends.items() if e2 >= e])
                if full is not False:
                    q.push()
                    q.add(full)
                    if q.check() == "sat":
                        w = rx.model_string(q.model(), zd.c)
                        ctx = True
                    q.pop()
                if id(item) not in per_node or ctx:
                    per_node[id(item)] = (nm, w, i, e, ctx)
            elif r != "unsat":
                ck.undecided.append(f"ambiguity {nm} span[{i},{e}): {r}")
            q.pop()
        flagged += [v[:4] for v in per_node.values()]
    return flagged, inst


def _steps_worker(job):
    """max backtracking steps of one rule for each n (z3 Optimize) - runs in a pool worker"""
    rule_name, ns, budget_ms = job
    model = rx.LexModel()
    rows, notes = [], []
    secs, nq = 0.0, 0
    a = dict((nm, a) for nm, a, _ in model.rules).get(rule_name)
    if a is None:
        return rule_name, rows, nq, secs, [f"rule {rule_name} vanished"]
    for n in ns:
        zd = rx.ZDom(n)
        sc_ = rx.StepComp(zd)
        try:
            r, s = sc_.run2(sc_.seq(a, 0, ("end",)), 0)
        except NotImplementedError as ex:
            notes.append(f"step count of {rule_name}: construct outside the encoder ({ex})")
            break
        if isinstance(s, int):
            rows.append((n, s, ""))
            continue
        o = z3.Optimize()
        o.set("timeout", budget_ms)
        for c in zd.domain_constraints():
            o.add(c)
        h = o.maximize(s)
        t = time.perf_counter()
        res = str(o.check())
        secs += time.perf_counter() - t
        nq += 1
        if res != "sat":
            notes.append(f"step optimum {rule_name} n={n}: {res}")
            continue
        try:
            val = o.upper(h).as_long()
        except Exception:
            notes.append(f"step optimum {rule_name} n={n}: no finite optimum")
            continue
        rows.append((n, val, rx.model_string(o.model(), zd.c)))
    return rule_name, rows, nq, secs, notes


def step_growth(ck, model, ns, budget_ms=30000):
    """returns ({rule: [(n, M, witness)]}, #optimisations, solver seconds)"""
    import multiprocessing as mp

    jobs = [(nm, ns, budget_ms) for nm, _, _ in model.rules]
    table, nq, secs = {}, 0, 0.0
    with mp.get_context("spawn").Pool(min(16, mp.cpu_count())) as pool:
        for nm, rows, q, s_, notes in pool.imap_unordered(_steps_worker, jobs):
            table[nm] = rows
            nq += q
            secs += s_
            for nt in notes:
                ck.undecided.append(nt)
                ck.exhaustive = False
    return table, nq, secs


def flag_growth(rows):
    """rows [(n, M, w)]: flagged when M(n+2)/M(n) >= 3 for two consecutive n >= 6"""
    run = 0
    for (n0, m0, _), (n1, m1, w1) in zip(rows, rows[1:]):
        if n0 >= 6 and m0 > 0 and m1 / m0 >= 3:
            run += 1
            if run >= 2:
                return w1
        else:
            run = 0
    return None


# ---------------------------------------------------------------------------------------------
# parser side: nesting families through the public API
# ---------------------------------------------------------------------------------------------

NEST_FAMILIES = [
    ("template args", lambda d: "A<" * d + "A" + ">" * d + " x;"),
    ("template args unterminated", lambda d: "A<" * d + "A"),
    ("template args fnptr suffix", lambda d: "A<" * d + "int" + ">(*)()" * d + " x;"),
    ("template args value suffix", lambda d: "A<" * d + "1" + ">::value + 1" * d + " x;"),
    ("template args ptr suffix", lambda d: "A<" * d + "int" + ">*" * d + " x;"),
    ("template args call suffix", lambda d: "A<" * d + "int" + ">()" * d + " x;"),
    ("template args array suffix", lambda d: "A<" * d + "int" + ">[2]" * d + " x;"),
    ("template args two per level", lambda d: "A<int, " * d + "int" + ">" * d + " x;"),
    ("template args in base clause", lambda d: "struct S : " + "A<" * d + "int" + ">" * d + " {};"),
    ("decltype nest", lambda d: "decltype(" * d + "x" + ")" * d + " v;"),
    ("requires nest", lambda d: "template <typename T> requires " + "(" * d + "true" + ")" * d + " void f();"),
    ("template args in parameter", lambda d: "void f(" + "A<" * d + "int" + ">" * d + " p);"),
    ("parens initializer", lambda d: "int x = " + "(" * d + "1" + ")" * d + ";"),
    ("parens unterminated", lambda d: "int x = " + "(" * d + "1"),
    ("brackets", lambda d: "int x = a" + "[" * d + "1" + " ]" * d + ";"),
    ("braces initializer", lambda d: "int x " + "{" * d + "1" + "}" * d + ";"),
    ("mismatched closers", lambda d: "int x = " + "(" * d + "]" * d + ";"),
    ("lt soup", lambda d: "int x = a " + "< b " * d + ";"),
    ("lt paren soup", lambda d: "int x = a " + "< ( b " * d + ";"),
    ("function body", lambda d: "void f() " + "{" * d + "}" * d),
    ("function body unterminated", lambda d: "void f() " + "{" * d),
    ("array dims", lambda d: "int x" + "[1]" * d + ";"),
    ("nested namespaces", lambda d: "namespace N {" * d + "int v;" + "}" * d),
    ("nested classes", lambda d: "struct S {" * d + "int v;" + "};" * d),
    ("fn ptr params", lambda d: "void f(" + "void (*g)(" * d + "int" + ")" * d + ");"),
    ("grouping parens", lambda d: "int " + "(" * d + "x" + ")" * d + ";"),
    ("pointer run", lambda d: "int " + "*" * d + "x;"),
    ("attribute soup", lambda d: "[[" + "a(" * d + ")" * d + "]] int x;"),
    ("string escapes unterminated", lambda d: "const char *s = \"" + "\\x" * d + ";"),
    ("char escapes unterminated", lambda d: "char c = '" + "\\1" * d + ";"),
    ("digits then junk", lambda d: "int x = " + "1'" * d + "$;"),
    ("comment unterminated", lambda d: "/*" + "*\n" * d),
    ("line continuations", lambda d: "int x = 1 " + "\\\n" * d + ";"),
]
FAM = dict(NEST_FAMILIES)


def nest_source(name, d):
    return FAM[name](d)


FAMILY_SNIPPET = r"""
import sys, time, json
sys.setrecursionlimit(10000)
from cxxheaderparser.simple import parse_string
from cxxheaderparser.errors import CxxParseError
from cxxheaderparser import lexer as _lx
from vf.props.c07 import nest_source

READS = [0]

def _count(cls, name):
    orig = getattr(cls, name)
    def wrapped(self, *a, **kw):
        READS[0] += 1
        return orig(self, *a, **kw)
    setattr(cls, name, wrapped)

# every token the parser pulls goes through one of these (LexerTokenStream and BoundedTokenStream inherit them)
for _n in ("token", "token_eof_ok", "token_newline_eof_ok"):
    _count(_lx.TokenStream, _n)

def family_times(name, depths=(20, 40, 80, 160), budget=20.0, read_budget=30000000):
    ts = []
    for d in depths:
        s = nest_source(name, d)
        READS[0] = 0
        t = time.perf_counter()
        try:
            parse_string(s)
        except CxxParseError:
            pass
        ts.append((d, len(s), time.perf_counter() - t, READS[0]))
        if ts[-1][2] > budget or READS[0] > read_budget:
            break
    return ts

def superpoly(ts, budget=20.0, read_budget=30000000):
    # deterministic measure: token reads of the parser.  Doubling the depth multiplies the reads by more than 2^3.5 twice in
    # a row (cubic growth gives 8), or a single parse blows the read / time budget
    r = [b[3] / a[3] for a, b in zip(ts, ts[1:]) if a[3] > 200]
    run = best = 0
    for x in r:
        run = run + 1 if x > 11.3 else 0
        best = max(best, run)
    return best >= 2 or ts[-1][2] > budget or ts[-1][3] > read_budget
"""


def parser_growth(ck):
    """time parse_string on nesting families at depths 20..160 in child processes (a blow-up must not hang the
    check); flag super-polynomial growth - concrete measurement of the real code"""
    import json
    import subprocess
    from ..common import ROOT

    procs = []
    for name, _ in NEST_FAMILIES:
        code = (f"import sys; sys.path.insert(0, {ROOT!r})\n" + FAMILY_SNIPPET +
                f"\nts = family_times({name!r})\nprint(json.dumps([ts, superpoly(ts)]))\n")
        procs.append((name, subprocess.Popen([sys.executable, "-c", code], stdout=subprocess.PIPE, stderr=subprocess.PIPE, text=True)))
    bad = []
    for name, p in procs:
        err = ""
        try:
            out, err = p.communicate(timeout=90)
            ts, flag = json.loads(out.strip().splitlines()[-1])
        except subprocess.TimeoutExpired:
            p.kill()
            ts, flag = [(0, 0, 90.0, 0)], True
        except Exception as ex:  # noqa
            raise HarnessError(f"family timing child failed for {name}: {ex} {err[-500:]}")
        ck.traces += len(ts)
        ck.sample(dict(family=name, depth_seconds_tokenreads=[(x[0], round(x[2], 4), x[3]) for x in ts]), limit=60)
        if flag:
            bad.append(((name, None), ts))
    return bad


def run(tier):
    ck = Check("C07", tier)
    model = rx.LexModel()
    from cxxheaderparser.lexer import PlyLexer
    from cxxheaderparser._ply import lex as plylex
    from cxxheaderparser.parser import CxxParser

    ck.encode(PlyLexer, plylex.Lexer.token, CxxParser._consume_balanced_tokens, CxxParser._consume_value_until,
              CxxParser._parse_template_specialization)
    n_amb = 8 if tier == "quick" else 12
    ns = [4, 6, 8, 10] if tier == "quick" else [4, 6, 8, 10, 12]
    ck.bounds = dict(ambiguity_witness_len=n_amb, step_count_lengths=ns, pump_k=KS, nesting_depths=[20, 40, 80, 160])
    ck.assume("code points range over 0..0x10FFFF", "timing replays use parse_string on prefix + unit^k + suffix, k = 10..40",
              "growth rule: time x>=1.8 per two pump units for three consecutive steps above 4 ms (polynomial degree <= 4 cannot do that at k >= 10.. only exponential growth is reported)")
    ck.out_of_scope(f"exponential families whose shortest ambiguous witness is longer than {n_amb} code points",
                    "asymptotics beyond the pumped sizes", "cost inside `re` unrelated to backtracking")

    t = time.time()
    npairs, nstr, npieces = rx.validate_translator(model, tier, ck.seed)
    ck.traces += npairs
    ck.sub("translator validation (concrete instantiation vs re)", "E-RX", "holds", pairs=npairs, strings=nstr,
           test_suite_tokens=npieces, wall_s=round(time.time() - t, 1))

    # (1) star ambiguity
    q = rx.Q()
    t = time.time()
    flagged, inst = star_ambiguity(ck, model, n_amb, q)
    ck.add_queries("z3", q.n, q.secs)
    q.report(ck, "star-ambiguity")
    ck.states += inst
    ck.sub("star ambiguity (two ways to consume one span)", "E-RX", "holds" if not flagged else "flagged",
           repeat_instances=inst, queries=q.n, solver_s=round(q.secs, 2), wall_s=round(time.time() - t, 1), bound=f"|w|<={n_amb}",
           flagged=[(nm, w[i:e]) for nm, w, i, e in flagged])
    # vacuity guard: the ambiguity query must be satisfiable for a textbook ambiguous pattern
    zd = rx.ZDom(4)
    comp = rx.Comp(zd)
    amb = rx.Amb(comp)
    tree = sp.parse(r"x(a|a)*y", 0)
    amb.keep.append(tree)
    amb.seq(tree, 0, 0)
    q2 = rx.Q()
    q2.add(*zd.domain_constraints())
    sat = False
    for item, i, e, c in amb.stars:
        if c is not False:
            q2.push(); q2.add(c); sat = sat or q2.check() == "sat"; q2.pop()
    ck.add_queries("z3", q2.n, q2.secs)
    if not sat:
        raise HarnessError("ambiguity query is vacuous: (a|a)* not flagged")
    ck.sub("vacuity guard: x(a|a)*y is flagged", "E-RX", "refuted-as-expected", queries=q2.n)

    for nm, w, i, e in flagged:
        fam, times = confirm_blowup(ck, w, i, e, rule=nm)
        desc = f"rule {nm}: repeat consumes {w[i:e]!r} in two ways (witness {w!r})"
        if fam is None:
            ck.undecided.append(desc + " - no pumped family showed exponential time on the real lexer")
            ck.sample(dict(kind="ambiguous-but-not-exponential", rule=nm, witness=w))
            continue
        report_blowup(ck, nm, fam, times, desc)

    # (2) step-count growth
    t = time.time()
    table, nq, secs = step_growth(ck, model, ns)
    ck.add_queries("z3-optimize", nq, secs)
    ck.states += nq
    grow = {}
    for nm, rows in table.items():
        w = flag_growth(rows)
        if w is not None:
            grow[nm] = (w, rows)
    ck.sub("backtracking step count maxima per rule", "E-RX", "holds" if not grow else "flagged", rules=len(table),
           optimisations=nq, solver_s=round(secs, 1), wall_s=round(time.time() - t, 1), bound=f"n in {ns}",
           flagged={k: [(n, m) for n, m, _ in v[1]] for k, v in grow.items()})
    for nm in ("t_STRING_LITERAL", "t_COMMENT_MULTILINE", "t_FLOAT_CONST"):
        if nm in table:
            ck.sample(dict(kind="step maxima", rule=nm, rows=[(n, m, w) for n, m, w in table[nm]]), limit=40)
    done_rules = {v["key"]["rule"] for v in ck.violations if v.get("key")} | {h["id"] for h in ck.known_hits}
    for nm, (w, rows) in grow.items():
        if nm in done_rules:
            continue
        fam, times = confirm_blowup(ck, w)
        desc = f"rule {nm}: step maximum grows x>=3 per two characters {[(n, m) for n, m, _ in rows]} (optimum {w!r})"
        if fam is None:
            ck.undecided.append(desc + " - no pumped family showed exponential time on the real lexer")
            continue
        report_blowup(ck, nm, fam, times, desc)

    # (3) parser nesting families (real code, concrete)
    t = time.time()
    bad = parser_growth(ck)
    ck.sub("parser nesting families (token reads of parse_string per depth; time budget only as a hard stop)", "replay", "holds" if not bad else "flagged",
           families=len(NEST_FAMILIES), wall_s=round(time.time() - t, 1))
    for fam, times in bad:
        body = (FAMILY_SNIPPET + f"\nts = family_times({fam[0]!r})\nfor x in ts: print(x)\nsys.exit(1 if superpoly(ts) else 0)\n")
        path = ck.write_replay(body)
        ck.violation(f"parser work grows super-polynomially on family {fam[0]}: (depth, seconds, token reads) {[(x[0], round(x[2], 3), x[3]) for x in times]}", path,
                     key=dict(kind="parser-nesting", family=fam[0]))
    ck.extra["explanation"] = ("regex -> z3 encodings of every token rule: ambiguity and step-count queries decided by z3 for all "
                               "strings up to the bound; flagged witnesses pumped and timed on the real parse_string")
    return ck


def report_blowup(ck, rule, fam, times, desc):
    prefix, unit, suffix = fam
    body = (TIMING_SNIPPET + f"\nts = measure({prefix!r}, {unit!r}, {suffix!r}, {KS!r})\n"
            "for k, n, t in ts: print(k, n, round(t, 4))\n"
            "sys.exit(1 if exponential(ts) else 0)\n")
    path = ck.write_replay(body)
    what = (f"{desc}; parse_string time on {prefix!r} + {unit!r}*k + {suffix!r}: "
            f"{[(k, round(t, 3)) for k, _, t in times]}")
    ck.violation(what, path, key=dict(kind="regex-blowup", rule=rule))
