"""C12 - sibling declarations are independent and scopes compose.

Inductive step (E-CH traced): from an arbitrary inter-declaration state (enclosing block: global / namespace / extern
block / class, reached through the public API; anonymous-id counter = symbolic integer) one declaration form is
parsed: afterwards the state object, the visitor, the current namespace are the ones before, the token buffer holds no
pending token, anon_id grew by exactly the number of anonymous types of the form and every anonymous id in the emitted
payloads is anon_id+1..anon_id+k.  With nothing retained, concatenation of sequences of any length follows.
Cross-check (E-CH enumerated): parse(A B) == merge(parse(A), parse(B)) for all ordered pairs of a pool of complete
declarations at namespace scope, inside a namespace, inside an extern block and (member pool) inside a class.
Scopes: namespace a::b {X} == nested blocks; re-opened namespaces append; extern "C" {X} == X in the simple API.
"""
import copy
import dataclasses

from crosshair.tracers import NoTracing

from ..chrun import Chooser
from ..common import Check, HarnessError
from .. import stublex
from ..recorder import Recorder, same_scope

TWIN = False

POOL = [
    ("int a{i};", 0),
    ("static const int *b{i} = 1, c{i}[2];", 0),
    ("void f{i}(int x = 1);", 0),
    ("template <typename T> T g{i}(T) {{ return 0; }}", 0),
    ("template <> struct S{i}<int> {{ int m; private: int n; }};", 0),
    ("struct {{ int q; }} anon{i}a, *anon{i}b;", 1),
    ("typedef struct {{ int w; }} TD{i};", 1),
    ("enum E{i} {{ A{i}, B{i} = 2 }} e{i};", 0),
    ("enum {{ AN{i} }} ae{i};", 1),
    ("enum class F{i} : int;", 0),
    ("namespace N {{ int z{i}; }}", 0),
    ("namespace a::b {{ int k{i}; }}", 0),
    ("namespace a {{ namespace b {{ int j{i}; }} }}", 0),
    ("inline namespace I {{ int i{i}; }}", 0),
    ("namespace {{ int an{i}; }}", 0),
    ("extern \"C\" {{ int q{i}; void qq{i}(); }}", 0),
    ("extern \"C\" int q3{i};", 0),
    ("using namespace std{i};", 0),
    ("using std::string{i};", 0),
    ("using U{i} = int;", 0),
    ("template <typename T> using V{i} = T*;", 0),
    ("namespace NA{i} = a::b;", 0),
    ("template <class T> concept C{i} = true;", 0),
    ("template class std::vector{i}<int>;", 0),
    ("extern template class std::vector{i}<long>;", 0),
    ("template <class T> S{i}(T) -> S{i}<T>;", 0),
    ("void S<int>::method{i}() {{}}", 0),
    ("#include <x{i}>\n", 0),
    ("#pragma once{i}\n", 0),
    ("/// doc {i}\nint documented{i};", 0),
    ("[[deprecated]] int attr{i};", 0),
    ("static_assert(true);", 0),
    ("class Fwd{i};", 0),
    ("typedef void (*fp{i})(void);", 0),
    ("int (*arr{i}[3])(int);", 0),
    ("auto h{i}() -> int;", 0),
    ("struct D{i} : public B1, virtual private B2 {{ D{i}(); ~D{i}(); operator int(); friend class X; union {{ int u; }}; }};", 1),
    ("template <typename T> requires Cc<T> struct R{i} {{}};", 0),
    ("constexpr inline int ci{i} {{ 3 }};", 0),
    (";", 0),
    ("__attribute__((unused)) static int ga{i};", 0),
    ("struct W{i} {{ struct {{ int x; }} s; struct {{ int y; }} t; }} w{i};", 2),
    ("void fac{i}(auto const x, const auto *y);", 0),
    ("void fap{i}(auto x, auto y);", 0),
    ("static inline constexpr volatile int spec{i} = 0;", 0),
    ("int pcb{i}; /* remark {i} */", 0),
    ("int pcl{i}; // remark {i}", 0),
    ("/// stray {i}\n;", 0),
    ("void sec{i}();\n/// section {i}\n", 0),
    ("enum PE{i} {{ PA{i}, /* remark */\n PB{i} }};", 0),
]
CLASS_POOL = [
    ("int a{i};", 0), ("static const int b{i} = 1;", 0), ("void f{i}() const;", 0), ("K();", 0), ("~K() {{}}", 0), ("virtual void v{i}() = 0;", 0),
    ("template <typename T> void t{i}(T);", 0), ("typedef int T{i};", 0), ("using U{i} = int;", 0), ("using B::m{i};", 0), ("enum E{i} {{ X{i} }};", 0),
    ("struct N{i} {{ int n; private: int p; }};", 0), ("struct {{ int q; }} an{i};", 1), ("union {{ int u{i}; float g{i}; }};", 1), ("class F{i};", 0),
    ("friend class G{i};", 0), ("friend void h{i}();", 0), ("public:", 0), ("private:", 0), ("protected:", 0), ("static_assert(true);", 0),
    ("operator int();", 0), ("int bf{i} : 3;", 0), ("/// doc {i}\nint doc{i};", 0), ("[[nodiscard]] int at{i}();", 0), ("K(const K&) = delete;", 0),
    ("int l{i} = 1, m{i} {{2}};", 0), ("typedef struct {{ int t; }} TS{i};", 1),
    ("void mac{i}(auto volatile x) const;", 0), ("void map{i}(auto x);", 0), ("mutable int mu{i};", 0), ("explicit K(int e{i});", 0),
    ("int pcb{i}; /* remark {i} */", 0), ("int pcl{i}; // remark {i}", 0),
]
CTX = [("global", "{X}"), ("namespace", "namespace W {{\n{X}\n}}"), ("extern", "extern \"C++\" {{\n{X}\n}}"), ("nested-ns", "namespace W::V {{\n{X}\n}} int tail;")]
CLASS_CTX = [("struct", "struct K {{\n{X}\n}};"), ("class", "class K {{\n{X}\n}};"), ("nested", "namespace W {{ struct O {{ private: struct K {{\n{X}\n}}; int o; }}; }}")]


# ---------------------------------------------------------------------------------------------
# merge with identity-aware renumbering of anonymous ids
# ---------------------------------------------------------------------------------------------


def walk(o, fn, seen):
    from cxxheaderparser.types import AnonymousName

    if isinstance(o, AnonymousName):
        if id(o) not in seen:
            seen.add(id(o))
            fn(o)
    elif dataclasses.is_dataclass(o) and not isinstance(o, type):
        if id(o) in seen:
            return
        seen.add(id(o))
        for f in dataclasses.fields(o):
            walk(getattr(o, f.name), fn, seen)
    elif isinstance(o, (list, tuple)):
        for x in o:
            walk(x, fn, seen)
    elif isinstance(o, dict):
        for x in o.values():
            walk(x, fn, seen)


def anon_id_set(o):
    ids = set()
    walk(o, lambda a: ids.add(a.id), set())
    return ids


def shift_anon(o, k):
    def sh(a):
        a.id += k

    walk(o, sh, set())


def merge_ns(a, b):
    from cxxheaderparser.simple import NamespaceScope

    for f in dataclasses.fields(NamespaceScope):
        va, vb = getattr(a, f.name), getattr(b, f.name)
        if f.name == "classes":
            merge_classes(va, vb)
        elif isinstance(va, list):
            va.extend(vb)
        elif isinstance(va, dict):
            for k, nb in vb.items():
                if k in va:
                    merge_ns(va[k], nb)
                    va[k].inline = nb.inline
                    va[k].doxygen = nb.doxygen
                else:
                    va[k] = nb
    return a


MERGE_CLASS = None  # name of the class whose two definitions are to be merged member-wise (class-context law)


def merge_classes(la, lb):
    """class lists are concatenated; in the class-context law the two copies of the wrapper class K are merged member-wise"""
    from cxxheaderparser.simple import ClassScope

    for cb in lb:
        nm = getattr(cb.class_decl.typename.segments[-1], "name", None)
        tgt = None
        if MERGE_CLASS is not None and nm in MERGE_CLASS:
            for ca in la:
                if getattr(ca.class_decl.typename.segments[-1], "name", None) == nm:
                    tgt = ca
        if tgt is None:
            la.append(cb)
            continue
        for f in dataclasses.fields(ClassScope):
            if f.name == "class_decl":
                continue
            va, vb = getattr(tgt, f.name), getattr(cb, f.name)
            if f.name == "classes":
                merge_classes(va, vb)
            else:
                va.extend(vb)


def merge(a, b):
    a = copy.deepcopy(a)
    b = copy.deepcopy(b)
    ids = anon_id_set(a)
    shift_anon(b, max(ids) if ids else 0)
    merge_ns(a.namespace, b.namespace)
    a.pragmas.extend(b.pragmas)
    a.includes.extend(b.includes)
    return a


BASEFILE = None  # pickle {source: ParsedData} computed in fresh interpreters (one per pool item) before the exploration starts
_BASE = None
_FRESH_SCRIPT = ("import sys, pickle\nfrom cxxheaderparser.simple import parse_string\nsrcs = pickle.load(sys.stdin.buffer)\nout = {}\n"
                 "for s in srcs:\n    try:\n        out[s] = parse_string(s)\n    except Exception as e:\n        out[s] = 'ERR ' + str(e)\n"
                 "pickle.dump(out, sys.stdout.buffer)\n")


def fresh_parse(srcs):
    """parse each source in ONE fresh interpreter (sources of the same pool item only): {source: ParsedData | 'ERR ...'}"""
    import pickle
    import subprocess
    import sys

    r = subprocess.run([sys.executable, "-c", _FRESH_SCRIPT], input=pickle.dumps(list(srcs)), capture_output=True, timeout=300)
    if r.returncode != 0:
        raise HarnessError(f"fresh-interpreter baseline failed: {r.stderr[-300:]!r}")
    return pickle.loads(r.stdout)


def compute_baselines():
    """every pool item in every context, each item in its own fresh interpreter (16 at a time)"""
    from concurrent.futures import ThreadPoolExecutor

    groups = []
    for pool_, ctxs in ((POOL, CTX), (CLASS_POOL, CLASS_CTX)):
        for t, _ in pool_:
            groups.append([c[1].format(X=t.format(i=i)) for c in ctxs for i in (1, 2)])
    out = {}
    with ThreadPoolExecutor(16) as ex:
        for d in ex.map(fresh_parse, groups):
            out.update(d)
    return out


def base(src):
    """the result of parsing `src` in an interpreter that has parsed nothing else"""
    global _BASE
    if _BASE is None:
        _BASE = {}
        if BASEFILE:
            import pickle

            with open(BASEFILE, "rb") as f:
                _BASE = pickle.load(f)
    if src not in _BASE:
        _BASE.update(fresh_parse([src]))
    v = _BASE[src]
    if isinstance(v, str):
        raise HarnessError(f"pool snippet does not parse alone: {src!r}: {v}")
    return copy.deepcopy(v)


def pair_judge(ctx, A, B, class_ctx=False):
    from cxxheaderparser.simple import parse_string
    from cxxheaderparser.errors import CxxParseError

    global MERGE_CLASS
    sa, sb = A[0].format(i=1), B[0].format(i=2)
    # parse(A) and parse(B) come from fresh interpreters: state shared between parses (class attributes, shared result
    # objects) cannot make both sides of the law wrong in the same way
    da = base(ctx[1].format(X=sa))
    db = base(ctx[1].format(X=sb))
    try:
        dab = parse_string(ctx[1].format(X=sa + "\n" + sb))
    except CxxParseError as e:
        return f"concatenation does not parse: {e}"
    if class_ctx:
        # the access specifier in force is state *of the class*, so a specifier in A legitimately affects B: compare with B parsed after the specifier
        acc = {"public:": "public", "private:": "private", "protected:": "protected"}.get(sa)
        if acc:
            # members of A alone (none) + members of "A B" must equal "A B": trivially true; check instead that B's members carry acc
            got = [m for m in _members(dab, ctx) if hasattr(m, "access")]
            if any(m.access != acc for m in got):
                return f"members after '{sa}' do not carry access {acc}"
            return None
        MERGE_CLASS = ("K", "O")
    else:
        MERGE_CLASS = None
    try:
        want = merge(da, db)
    finally:
        MERGE_CLASS = None
    if ctx[0] in ("nested",):
        # wrapper members outside K (int o) appear in both copies: drop the duplicate the merge produced
        want = _dedupe_outer(want)
    if ctx[0] == "nested-ns":
        want.namespace.variables = [v for i_, v in enumerate(want.namespace.variables) if not (v.name.segments[-1].name == "tail" and i_ != len(want.namespace.variables) - 1)]
    if dab != want:
        return "parse(A B) differs from merge(parse(A), parse(B))"
    return None


def _members(d, ctx):
    sc = d.namespace
    if ctx[0] == "nested":
        cls = sc.namespaces["W"].classes[0].classes[0]
    else:
        cls = sc.classes[0]
    return cls.fields + cls.methods + cls.typedefs + cls.using_alias + cls.enums + cls.forward_decls + [c.class_decl for c in cls.classes]


def _dedupe_outer(d):
    o = d.namespace.namespaces["W"].classes[0]
    seen, out = set(), []
    for f in o.fields:
        if f.name in seen:
            continue
        seen.add(f.name)
        out.append(f)
    o.fields = out
    return d


def confirm_fresh(class_ctx, ci, ai, bi):
    """a pair that fails in this worker is re-judged in a fresh interpreter (nothing parsed before): only a failure that the pair
    causes by itself counts; one that needs the worker's earlier parses is a history effect (C15's subject) and is only counted"""
    import subprocess
    import sys
    from ..common import ROOT

    code = ("import sys\nsys.path.insert(0, %r)\nfrom vf.props import c12\n"
            "ctxs, pool = (c12.CLASS_CTX, c12.CLASS_POOL) if %r else (c12.CTX, c12.POOL)\n"
            "bad = c12.pair_judge(ctxs[%d], pool[%d], pool[%d], class_ctx=%r)\nsys.exit(1 if bad else 0)\n") % (ROOT, class_ctx, ci, ai, bi, class_ctx)
    r = subprocess.run([sys.executable, "-c", code], capture_output=True, timeout=600)
    if r.returncode not in (0, 1):
        raise HarnessError(f"fresh re-judgement failed: {r.stderr[-300:]!r}")
    return r.returncode == 1


def h_pairs(c0: int, c1: int, c2: int) -> bool:
    """
    post: _
    """
    with NoTracing():
        ch = Chooser([c0, c1, c2])
        ctx = CTX[ch.pick(len(CTX))]
        A = POOL[ch.pick(len(POOL))]
        B = POOL[ch.pick(len(POOL))]
        if TWIN:
            return False
        if pair_judge(ctx, A, B) is None:
            return True
        return not confirm_fresh(False, CTX.index(ctx), POOL.index(A), POOL.index(B))


def h_cpairs(c0: int, c1: int, c2: int) -> bool:
    """
    post: _
    """
    with NoTracing():
        ch = Chooser([c0, c1, c2])
        ctx = CLASS_CTX[ch.pick(len(CLASS_CTX))]
        A = CLASS_POOL[ch.pick(len(CLASS_POOL))]
        B = CLASS_POOL[ch.pick(len(CLASS_POOL))]
        if TWIN:
            return False
        if pair_judge(ctx, A, B, class_ctx=True) is None:
            return True
        return not confirm_fresh(True, CLASS_CTX.index(ctx), CLASS_POOL.index(A), CLASS_POOL.index(B))


# ---------------------------------------------------------------------------------------------
# scope equivalences
# ---------------------------------------------------------------------------------------------

EQUIVS = [
    ("nested-name == nested blocks", "namespace p::q {{ \n{X}\n }}", "namespace p {{ namespace q {{ \n{X}\n }} }}"),
    ("re-opened namespace appends", "namespace p {{ \n{X}\n }} namespace p {{ int second; }}", "namespace p {{ \n{X}\n int second; }}"),
    ("re-opened nested-name with existing prefix", "namespace p {{ int first; }} namespace p::q {{ \n{X}\n }}", "namespace p {{ int first; namespace q {{ \n{X}\n }} }}"),
    ("extern block is transparent", "extern \"C\" {{ \n{X}\n }}", "\n{X}\n"),
    ("extern block inside a namespace is transparent", "namespace p {{ extern \"C\" {{ \n{X}\n }} int t; }}", "namespace p {{ \n{X}\n int t; }}"),
    ("nested extern blocks", "extern \"C\" {{ extern \"C++\" {{ \n{X}\n }} }}", "\n{X}\n"),
    ("anonymous namespaces are one scope", "namespace {{ \n{X}\n }} namespace {{ int second; }}", "namespace {{ \n{X}\n int second; }}"),
    ("three-level nested name", "namespace p::q::r {{ \n{X}\n }}", "namespace p {{ namespace q {{ namespace r {{ \n{X}\n }} }} }}"),
]


def equiv_judge(eq, A):
    from cxxheaderparser.simple import parse_string
    from cxxheaderparser.errors import CxxParseError

    x = A[0].format(i=1)
    try:
        l = parse_string(eq[1].format(X=x))
        r = parse_string(eq[2].format(X=x))
    except CxxParseError as e:
        return f"parse error: {e}"
    return None if l == r else f"{eq[0]}: results differ"


def h_equiv(c0: int, c1: int) -> bool:
    """
    post: _
    """
    with NoTracing():
        ch = Chooser([c0, c1])
        eq = EQUIVS[ch.pick(len(EQUIVS))]
        A = POOL[ch.pick(len(POOL))]
        if TWIN:
            return False
        return equiv_judge(eq, A) is None


# ---------------------------------------------------------------------------------------------
# inductive step with symbolic anon_id
# ---------------------------------------------------------------------------------------------

IND_PREFIX = [("global", "", ""), ("namespace", "namespace W {\n", "}\n"), ("extern", "extern \"C\" {\n", "}\n"),
              ("deep", "namespace W { namespace V { extern \"C\" {\n", "} } }\n")]
IND_CPREFIX = [("struct", "struct K {\n", "};\n"), ("nested", "namespace W { class O { struct K {\n", "}; }; }\n")]


def h_ind(anon0: int, c0: int, c1: int, c2: int) -> bool:
    """
    pre: anon0 >= 0
    post: _
    """
    with NoTracing():
        ch = Chooser([c0, c1, c2])
        in_class = ch.flag()
        if in_class:
            name, pre, post = IND_CPREFIX[ch.pick(len(IND_CPREFIX))]
            text, k = CLASS_POOL[ch.pick(len(CLASS_POOL))]
        else:
            name, pre, post = IND_PREFIX[ch.pick(len(IND_PREFIX))]
            text, k = POOL[ch.pick(len(POOL))]
        rec = Recorder()
        p = stublex.make_parser(stublex.raw_tokens(pre), rec)
        p.parse()
        st, vis, ns = p.state, p.visitor, p.current_namespace
        n0 = len(rec.events)
    p.anon_id = anon0
    with NoTracing():
        p.lex._lex = stublex.StubPly(stublex.raw_tokens(text.format(i=1) + "\n"), "f.h", list(range(60)))
    p.parse()
    if TWIN:
        return False
    if not same_scope(p.state, st) or p.visitor is not vis:
        return False  # (parser.current_namespace is written but never read by the parser: not observable, not asserted)
    with NoTracing():
        pending = [t for t in p.lex.tokbuf if t.type not in ("NEWLINE", "WHITESPACE", "COMMENT_SINGLELINE", "COMMENT_MULTILINE")]
        ids = []
        for ev in rec.events[n0:]:
            if ev.name == "on_class_start":
                walk(ev.state.class_decl, lambda a: ids.append(a.id), set())
            for pl in ev.payload:
                walk(pl, lambda a: ids.append(a.id), set())
    if pending:
        return False
    if p.anon_id != anon0 + k:
        return False
    for i in ids:
        if not (anon0 + 1 <= i and i <= anon0 + k):
            return False
    return True


def run(tier):
    from .. import chrun
    from cxxheaderparser.parser import CxxParser
    from cxxheaderparser import simple

    ck = Check("C12", tier)
    ck.encode(CxxParser.parse, CxxParser._parse_declarations, CxxParser._parse_template, CxxParser._pop_state, simple.SimpleCxxVisitor.on_namespace_start,
              simple.SimpleCxxVisitor.on_extern_block_start)
    ck.bounds = dict(pool=len(POOL), class_pool=len(CLASS_POOL), contexts=[c[0] for c in CTX] + [c[0] for c in CLASS_CTX], equivalences=[e[0] for e in EQUIVS],
                     inductive_step="every pool form in 4 namespace-level and 2 class-level contexts, anon_id = any integer >= 0")
    ck.assume("in a class body the access specifier in force is state of the class (C03), so 'A = access specifier' is judged by the access B's members carry",
              "trailing '///<' comments are not in the pool (their attachment is C11)",
              "inductive step: lexing is a replay of the real lexer's tokens; the enclosing state is reached through the public API")
    ck.out_of_scope("forms outside the pools", "three-way interactions beyond the inductive argument")
    plan = [
        ("h_ind", [(a, b) for a in range(2) for b in range(4)], "inductive step: state / visitor / namespace restored, nothing pending, anon_id += k, ids in (anon_id, anon_id+k]"),
        ("h_pairs", [(a, b) for a in range(len(CTX)) for b in range(len(POOL))], "parse(A B) == merge(parse(A), parse(B)), namespace-level pool"),
        ("h_cpairs", [(a, b) for a in range(len(CLASS_CTX)) for b in range(len(CLASS_POOL))], "parse(A B) == merge(parse(A), parse(B)), member pool inside a class"),
        ("h_equiv", [(a,) for a in range(len(EQUIVS))], "scope equivalences for every pool form"),
    ]
    results = {}
    import os
    import pickle
    import shutil
    import tempfile
    import time

    t0 = time.time()
    tmpd = tempfile.mkdtemp(prefix="vfc12_")
    basefile = os.path.join(tmpd, "base.pkl")
    bl = compute_baselines()
    bad_base = [k for k, v in bl.items() if isinstance(v, str)]
    if bad_base:
        # every pool form parses in every context on the pinned tree: a form that no longer does is itself a reportable failure
        shutil.rmtree(tmpd, ignore_errors=True)
        for src_ in bad_base[:3]:
            body = ("from cxxheaderparser.simple import parse_string\n" f"src = {src_!r}\ntry:\n    parse_string(src)\nexcept Exception as e:\n    print(repr(src)); print(e); sys.exit(1)\nsys.exit(0)\n")
            pth = ck.write_replay(body)
            ok, out = ck.run_replay(pth)
            if not ok:
                raise HarnessError(f"pool snippet failed in the baseline run but parses in a replay: {src_!r}: {bl[src_]}")
            ck.violation(f"a declaration form that is valid in this context does not parse: {src_!r}: {bl[src_][:120]}", pth, key=dict(kind="pool-form", what=bl[src_][:40]))
        return ck
    with open(basefile, "wb") as f:
        pickle.dump(bl, f)
    globals().update(BASEFILE=basefile, _BASE=None)
    ck.traces += len(bl)
    ck.sub("baselines: every pool form in every context parsed alone, each form in its own fresh interpreter", "setup", "holds", sources=len(bl), wall_s=round(time.time() - t0, 1))
    pool = chrun.make_pool()
    try:
        for name, shards, label in plan:
            tw = chrun.run(__name__, name, [shards[0]], timeout=60, globs=dict(TWIN=True, BASEFILE=basefile), pool=pool)
            chrun.record(ck, tw, f"{name} reachability twin", expect="refuted")
            r = chrun.run(__name__, name, shards, timeout=(150 if tier == "quick" else 900), globs=dict(TWIN=False, BASEFILE=basefile), pool=pool)
            chrun.record(ck, r, label)
            results[name] = r
    finally:
        pool.shutdown()

    def rep(name, vals):
        ch = Chooser(list(vals), prefix=())
        if name == "h_pairs":
            ctx = CTX[ch.pick(len(CTX))]; A = POOL[ch.pick(len(POOL))]; B = POOL[ch.pick(len(POOL))]
            return f"{ctx[0]}: {A[0].format(i=1)!r} + {B[0].format(i=2)!r}", pair_judge(ctx, A, B)
        if name == "h_cpairs":
            ctx = CLASS_CTX[ch.pick(len(CLASS_CTX))]; A = CLASS_POOL[ch.pick(len(CLASS_POOL))]; B = CLASS_POOL[ch.pick(len(CLASS_POOL))]
            return f"{ctx[0]}: {A[0].format(i=1)!r} + {B[0].format(i=2)!r}", pair_judge(ctx, A, B, class_ctx=True)
        eq = EQUIVS[ch.pick(len(EQUIVS))]; A = POOL[ch.pick(len(POOL))]
        return f"{eq[0]} with {A[0].format(i=1)!r}", equiv_judge(eq, A)

    globals()["_rep"] = rep
    # every candidate is replayed in a fresh interpreter (the pair alone, nothing parsed before): a worker that parsed other
    # pairs earlier may carry state leaked by those, so a candidate that does not reproduce alone is only counted
    tot_repro, all_stale = 0, []
    for name in ("h_pairs", "h_cpairs", "h_equiv"):
        reproduced, stale = 0, []
        from concurrent.futures import ThreadPoolExecutor

        cands = []
        for shard, args, kw, msg in results[name].counterexamples[:400]:
            vals = list(shard) + list(args)
            body = ("from vf.props import c12\n" f"what, bad = c12.replay_named({name!r}, {vals!r})\nprint(what); print(bad)\nsys.exit(1 if bad else 0)\n")
            cands.append((vals, msg, ck.write_replay(body)))
        with ThreadPoolExecutor(16) as ex:
            outs = list(ex.map(lambda c: ck.run_replay(c[2]), cands))
        for (vals, msg, pth), (ok, out) in zip(cands, outs):
            ck.traces += 1
            if not ok or reproduced >= 12:
                if not ok:
                    stale.append((vals, msg))
                os.unlink(pth)
                continue
            reproduced += 1
            lines = out.strip().splitlines()
            what, bad = (lines[0], lines[-1]) if len(lines) >= 2 else ("?", out.strip()[-200:])
            ck.violation(f"{bad} - {what}", pth, key=dict(kind=name, what=bad[:40]))
        tot_repro += reproduced
        if stale:
            all_stale.append((name, len(stale), stale[0]))
            ck.extra.setdefault("history_dependent_candidates", {})[name] = len(stale)
    shutil.rmtree(tmpd, ignore_errors=True)
    if all_stale and not tot_repro:
        raise HarnessError(f"counterexamples that do not reproduce in a fresh interpreter and none that does: {all_stale}")
    globals().update(BASEFILE=None, _BASE=None)
    for shard, args, kw, msg in results["h_ind"].counterexamples[:6]:
        anon0 = kw.get("anon0", args[0] if args else 0)
        body = ("from vf.props import c12\nfrom vf import chrun\n" f"chrun.set_prefix({tuple(shard)!r})\nok = c12.h_ind({anon0!r}, *{list(args[1:])!r})\nprint(ok)\nsys.exit(0 if ok else 1)\n")
        p = ck.write_replay(body)
        ok, out = ck.run_replay(p)
        ck.traces += 1
        if not ok:
            raise HarnessError(f"inductive-step counterexample did not reproduce: {msg}\n{out}")
        ck.violation(f"inductive step from shard {shard} with anon_id {anon0}: parser state not restored / ids wrong ({msg[:80]})", p, key=dict(kind="h_ind", shard=str(shard)))
    ck.sample(dict(pool=[p_[0] for p_ in POOL][:12]))
    ck.sample(dict(class_pool=[p_[0] for p_ in CLASS_POOL][:12]))
    ck.extra["explanation"] = "CrossHair: inductive step with symbolic anon_id on the real parser; exhaustive exploration of ordered pairs x contexts and of scope equivalences"
    return ck


def replay_named(name, vals):
    ch = Chooser(list(vals), prefix=())
    if name == "h_pairs":
        ctx = CTX[ch.pick(len(CTX))]; A = POOL[ch.pick(len(POOL))]; B = POOL[ch.pick(len(POOL))]
        return f"{ctx[0]}: {A[0].format(i=1)!r} + {B[0].format(i=2)!r}", pair_judge(ctx, A, B)
    if name == "h_cpairs":
        ctx = CLASS_CTX[ch.pick(len(CLASS_CTX))]; A = CLASS_POOL[ch.pick(len(CLASS_POOL))]; B = CLASS_POOL[ch.pick(len(CLASS_POOL))]
        return f"{ctx[0]}: {A[0].format(i=1)!r} + {B[0].format(i=2)!r}", pair_judge(ctx, A, B, class_ctx=True)
    eq = EQUIVS[ch.pick(len(EQUIVS))]; A = POOL[ch.pick(len(POOL))]
    return f"{eq[0]} with {A[0].format(i=1)!r}", equiv_judge(eq, A)
