"""C05 - returning False from a start callback prunes exactly that block.

Engine: E-CH.  CrossHair explores (a) the block tree (choice ints), (b) one lazily consulted decision per
*delivered* start callback (None / True / False): decisions below a skipped block are never consulted, so
the path tree is exactly the set of distinguishable (tree, skip-set) pairs and `Confirmed over all paths`
means every one of them was run against the real parser.  Oracle: event skeleton derived from the tree.
"""
from crosshair.tracers import NoTracing

from cxxheaderparser.parser import CxxParser
from cxxheaderparser.errors import CxxParseError
from cxxheaderparser import parser as parser_mod, visitor as visitor_mod

from .. import blocks as B
from ..chrun import Chooser
from ..recorder import Recorder, STARTS

MAXB = 3
MAXD = 2
KINDS = (B.NS, B.EXT, B.CLS, B.CLSVAR, B.TDCLS)
TWIN = False  # reachability twin: final assertion False
# declaration kinds inside / around the blocks: None = plain int declarations, k = rotation k of the payload tables of vf/blocks.py
# (every callback kind of the protocol appears inside some skipped block)
PAYLOADS = [None, 0, 3, 6, 9, 12, 15]


def decide(ch, root, blocks):
    """consult one decision per start callback that will be delivered; returns (skipped idx set, decisions)"""
    skipped = set()
    decisions = []  # in delivery order: return value of the start callback

    def walk(node):
        for it in node.items:
            if it[0] != "block":
                continue
            b = it[1]
            d = ch.pick(3)  # 0 -> None, 1 -> True, 2 -> False
            decisions.append([None, True, False][d])
            if d == 2:
                skipped.add(b.idx)
            else:
                walk(b)

    walk(root)
    return skipped, decisions


def run_parser(text, decisions):
    it = iter(decisions)

    def hook(name, state, payload, idx):
        if name in STARTS:
            return next(it)
        return None

    rec = Recorder(hook)
    p = CxxParser("f.h", text, rec, None)
    root_state = p.state
    p.parse()
    leftover = sum(1 for _ in it)
    return rec, p, root_state, leftover


def judge(text, root, skipped, decisions):
    """concrete oracle; returns None if fine, else a description"""
    try:
        rec, p, root_state, leftover = run_parser(text, decisions)
    except CxxParseError as e:
        return f"parse error {e}"
    exp = B.expected_events(root, frozenset(skipped))
    got = rec.names()
    if got != [n for n, _ in exp]:
        return f"stream differs: got {got} expected {[n for n, _ in exp]}"
    if leftover:
        return f"{leftover} start callbacks were never delivered"
    # every event tagged with the same block carries the same state object, distinct blocks distinct states
    by_idx = {}
    for ev, (n, idx) in zip(rec.events, exp):
        s = by_idx.setdefault(idx, ev.state)
        if s is not ev.state:
            return f"event {n} of block {idx} carries another block's state"
    if len({id(s) for s in by_idx.values()}) != len(by_idx):
        return "two blocks share a state object"
    if p.visitor is not rec:
        return "visitor not restored after the last block"
    if p.state is not root_state:
        return "state stack not back at the root"
    return None


def h_skip(c0: int, c1: int, c2: int, c3: int, c4: int, c5: int, c6: int, c7: int, c8: int, c9: int, c10: int, c11: int) -> bool:
    """
    post: _
    """
    with NoTracing():
        B.ANON_PAYLOAD_OK = False
        ch = Chooser([c0, c1, c2, c3, c4, c5, c6, c7, c8, c9, c10, c11])
        payload = PAYLOADS[ch.pick(len(PAYLOADS))]
        root, blocks = B.build(ch, MAXB, MAXD, KINDS, payload=payload)
        skipped, decisions = decide(ch, root, blocks)
        text = "\n".join(B.render(root)) + "\n"
        bad = judge(text, root, skipped, decisions)
        if TWIN:
            return False
        return bad is None


def replay(args):
    """concrete re-run of one counterexample: returns (description or None, text)"""
    B.ANON_PAYLOAD_OK = False
    ch = Chooser(list(args), prefix=())
    payload = PAYLOADS[ch.pick(len(PAYLOADS))]
    root, blocks = B.build(ch, MAXB, MAXD, KINDS, payload=payload)
    skipped, decisions = decide(ch, root, blocks)
    text = "\n".join(B.render(root)) + "\n"
    return judge(text, root, skipped, decisions), text, sorted(skipped), decisions


def run(tier):
    from .. import chrun
    from ..common import Check

    ck = Check("C05", tier)
    maxb, maxd = (2, 2) if tier == "quick" else (3, 3)
    globs = dict(MAXB=maxb, MAXD=maxd)
    ck.bounds = dict(max_blocks=maxb, max_depth=maxd, kinds=[B.KIND_NAMES[k] for k in KINDS], payload_rotations=PAYLOADS,
                     decisions_per_start=["None", "True", "False"])
    ck.encode(CxxParser._setup_state, CxxParser._pop_state, CxxParser._on_block_end, CxxParser._parse_namespace,
              CxxParser._parse_extern, CxxParser._parse_class_decl, CxxParser._finish_class_decl,
              CxxParser._finish_class_or_enum, visitor_mod.NullVisitor)
    ck.assume("block trees come from vf/blocks.py (namespace, extern \"C\", struct, struct with trailing declarators, "
              "typedef struct); one int declaration before/after every block",
              "start callbacks return one of None / True / False; only False must prune",
              "the parser itself runs concretely (NoTracing) once the choices of a path are fixed: the solver contributes "
              "the exhaustive, feasibility-checked exploration of the (tree, decision) space and the completeness verdict")
    ck.out_of_scope(f"trees with more than {maxb} blocks or deeper than {maxd}", "callbacks returning other falsy values")
    shards = [(p, a, b) for p in range(len(PAYLOADS)) for a in range(len(KINDS)) for b in range(len(KINDS) + 1)] + [(p, len(KINDS)) for p in range(len(PAYLOADS))]
    timeout = 120 if tier == "quick" else 1500
    pool = chrun.make_pool()
    try:
        tw = chrun.run(__name__, "h_skip", [(0, 0, len(KINDS))], timeout=60, globs=dict(globs, TWIN=True), pool=pool)
        chrun.record(ck, tw, "reachability twin (assert False)", expect="refuted")
        res = chrun.run(__name__, "h_skip", shards, timeout=timeout, globs=globs, pool=pool)
        # larger trees with plain declarations only (payload None = first rotation)
        big = dict(MAXB=maxb + 1, MAXD=maxd)
        shards2 = [(0, a, b) for a in range(len(KINDS)) for b in range(len(KINDS) + 1)] + [(0, len(KINDS))]
        res2 = chrun.run(__name__, "h_skip", shards2, timeout=timeout, globs=big, pool=pool)
    finally:
        pool.shutdown()
    v = chrun.record(ck, res, "skip pruning over all trees x decisions x payload rotations", bound=f"blocks<={maxb} depth<={maxd}, {len(PAYLOADS)} rotations")
    chrun.record(ck, res2, "skip pruning over larger trees (plain declarations)", bound=f"blocks<={maxb + 1} depth<={maxd}")
    global MAXB, MAXD
    for (mb, md), r_ in (((maxb + 1, maxd), res2), ((maxb, maxd), res)):
      MAXB, MAXD = mb, md
      maxb_, maxd_ = mb, md
      for shard, args, kw, msg in r_.counterexamples[:5]:
          bad, text, skipped, decisions = replay(list(shard) + [a for a in args])
          body = (
              "from vf.props import c05\n"
              f"c05.MAXB, c05.MAXD = {maxb_}, {maxd_}\n"
              f"bad, text, skipped, decisions = c05.replay({list(shard) + list(args)!r})\n"
              "print(text); print('skipped blocks', skipped, 'decisions', decisions); print('->', bad)\n"
              "sys.exit(1 if bad else 0)\n"
          )
          path = ck.write_replay(body)
          ok, out = ck.run_replay(path)
          ck.traces += 1
          if ok:
              ck.violation(f"skip pruning: {bad}", path, key=dict(kind="skip"))
          else:
              from ..common import HarnessError

              raise HarnessError(f"counterexample did not reproduce: {msg}\n{out}")
    # samples: a few concrete (tree, decisions) pairs actually run
    for pre in [(0, 0, 5, 2), (1, 2, 0, 5, 5, 0, 2), (3, 4, 5, 5, 2), (5, 3, 2, 5, 0)]:
        try:
            bad, text, skipped, decisions = replay(list(pre) + [9] * 12)
            ck.sample(dict(source=text, skipped_blocks=skipped, decisions=[str(d) for d in decisions], verdict=bad or "ok"))
            ck.traces += 1
        except Exception:
            pass
    ck.extra["explanation"] = (
        "CrossHair path exploration of (block tree, start-callback decisions); each path runs the real CxxParser with a "
        "recording visitor and compares the stream with the skeleton derived from the tree")
    return ck
