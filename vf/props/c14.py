"""C14 - unparsed values carry exactly the source tokens of their expression.

Engine E-CH.  CrossHair explores value-bearing positions x expressions of a token-level expression grammar (atoms,
operators, parenthesised comparisons, calls with commas, template-ids with nested '>', subscripts, braces, lambdas,
sizeof..., the position's own terminator characters inside brackets).  Oracle: the token texts of the exposed Value /
DecltypeSpecifier equal the token texts of the expression (lexed on its own), minus exactly the documented delimiters,
and the declaration that follows is intact.  Kernel: `_consume_value_until` through `int v = <tokens> ;` over all token
strings up to a bound against a reference (longest prefix before the first terminator at bracket depth 0).
"""
from crosshair.tracers import NoTracing

from ..chrun import Chooser
from ..common import Check, HarnessError

TWIN = False


def lex_values(src):
    from cxxheaderparser.lexer import LexerTokenStream

    ls = LexerTokenStream("e", src)
    out = []
    while True:
        t = ls.token_eof_ok()
        if t is None:
            return out
        out.append(t.value)


def vals(v):
    return None if v is None else [t.value for t in v.tokens]


def first_var(d):
    return d.namespace.variables[0]


# (name, template, extractor: ParsedData -> token values, wrap: tokens added around the expression by the position itself,
#  after: how to check the following declaration)
POSITIONS = [
    ("initializer", "int v = {E}; int after;", lambda d: vals(d.namespace.variables[0].value), ([], [])),
    ("second-declarator-init", "int u = 1, v = {E}; int after;", lambda d: vals(d.namespace.variables[1].value), ([], [])),
    ("brace-init", "int v{{ {E} }}; int after;", lambda d: vals(d.namespace.variables[0].value), (["{"], ["}"])),
    ("default-arg", "void f(int a = {E}, int b = 2); int after;", lambda d: vals(d.namespace.functions[0].parameters[0].default), ([], [])),
    ("last-default-arg", "void f(int a, int b = {E}); int after;", lambda d: vals(d.namespace.functions[0].parameters[1].default), ([], [])),
    ("array-size", "int v[ {E} ]; int after;", lambda d: vals(d.namespace.variables[0].type.size), ([], [])),
    ("array-size-2d", "int v[2][ {E} ]; int after;", lambda d: vals(d.namespace.variables[0].type.array_of.size), ([], [])),
    ("enumerator", "enum En {{ A = {E}, B }}; int after;", lambda d: vals(d.namespace.enums[0].values[0].value), ([], [])),
    ("last-enumerator", "enum En {{ A, B = {E} }}; int after;", lambda d: vals(d.namespace.enums[0].values[1].value), ([], [])),
    ("template-arg", "T<({E}), int> v; int after;", lambda d: vals(d.namespace.variables[0].type.typename.segments[0].specialization.args[0].arg), (["("], [")"])),
    ("template-param-default", "template <int N = {E}> void tf(); int after;", lambda d: vals(d.namespace.functions[0].template.params[0].default), ([], [])),
    ("type-param-default", "template <typename X = ({E}), int M = 1> void tf(); int after;", lambda d: vals(d.namespace.functions[0].template.params[0].default), (["("], [")"])),
    ("fn-noexcept", "void f() noexcept({E}); int after;", lambda d: vals(d.namespace.functions[0].noexcept), ([], [])),
    ("fn-throw", "void f() throw({E}); int after;", lambda d: vals(d.namespace.functions[0].throw), ([], [])),
    ("method-noexcept", "struct S {{ void m() const noexcept({E}); int aft; }}; int after;", lambda d: vals(d.namespace.classes[0].methods[0].noexcept), ([], [])),
    ("method-throw", "struct S {{ void m() throw({E}); int aft; }}; int after;", lambda d: vals(d.namespace.classes[0].methods[0].throw), ([], [])),
    ("decltype", "decltype({E}) v; int after;", lambda d: [t.value for t in d.namespace.variables[0].type.typename.segments[0].tokens], ([], [])),
    ("concept", "template <typename X> concept Cc = ({E}); int after;", lambda d: vals(d.namespace.concepts[0].raw_constraint), (["("], [")"])),
    ("field-default", "struct S {{ int m = {E}; int aft; }}; int after;", lambda d: vals(d.namespace.classes[0].fields[0].value), ([], [])),
    ("static-field-brace", "struct S {{ static constexpr int m{{ {E} }}; int aft; }}; int after;", lambda d: vals(d.namespace.classes[0].fields[0].value), (["{"], ["}"])),
    ("pragma", "#pragma omp {E}\nint after;", lambda d: vals(d.pragmas[0].content)[1:], ([], [])),
    ("requires-paren", "template <typename X> requires ({E}) void rf(); int after;", lambda d: vals(d.namespace.functions[0].template.raw_requires_pre), (["("], [")"])),
    ("fnptr-param-default", "void f(void (*cb)(int) = {E}, int z = 0); int after;", lambda d: vals(d.namespace.functions[0].parameters[0].default), ([], [])),
    ("template-arg-bare", "T<{E}, int> v; int after;", lambda d: vals(d.namespace.variables[0].type.typename.segments[0].specialization.args[0].arg), ([], [])),
    ("template-arg-bare-last", "T<int, {E}> v; int after;", lambda d: vals(d.namespace.variables[0].type.typename.segments[0].specialization.args[1].arg), ([], [])),
    ("requires-leading", "template <typename X> requires {E} void rf(); int after;", lambda d: vals(d.namespace.functions[0].template.raw_requires_pre), ([], [])),
    ("requires-trailing", "template <typename X> void rf(X) requires {E}; int after;", lambda d: vals(d.namespace.functions[0].raw_requires), ([], [])),
    ("requires-method", "struct S {{ template <typename X> void rf(X) const requires {E} {{ }} int aft; }}; int after;", lambda d: vals(d.namespace.classes[0].methods[0].raw_requires), ([], [])),
]
REQ_POSITIONS = ("requires-leading", "requires-trailing", "requires-method")
# un-parenthesised non-type template arguments (the parser first tries them as a type)
TA_EXPRS = ["kHeader + sizeof...(Ts)", "N + sizeof...(Ts) * 2", "1 + 2", "a + b", "sizeof(int)", "a[1]", "-a", "1'000", "a * b - 3", "a == b", "x::y + 1", "sizeof...(Ts)",
            "1 + sizeof...(Ts)", "a ? b : c", "nullptr", "static_cast<int>(a)", "a->b", "!a"]
# un-parenthesised requires-clauses: constraint-logical-or-expressions over primary expressions
REQ_EXPRS = ["Cq<X>", "decltype(p<X>(0))", "Cq<X> && Dq<X>", "(a < b) || Cq<X>", "decltype(f(1))::value", "requires (X t) { t; }", "true", "ns::Cq<X, int>",
             "Cq<X> || (sizeof(X) > 4)", "(Cq<X>)", "(a) && (b)", "Cq<X> && (a || b) && Dq<X>", "::ns::inner::Cq<X>", "Cq<decltype(a)>"]

EXPRS = [
    "1", "a", "a + b", "a * b - 3", "a == b", "a && b || c", "a << 2", "-a", "!a", "a ? b : c", "x::y", "::x::y<int>::z",
    "(a < b)", "(a > b)", "(a < b) && (c > d)", "f(a, b)", "f(a)(b)", "g<int>(a)", "T<A<int>>::value", "T<A<int>, 3>::value + 1",
    "a[1]", "a[b [ 0 ] ]", "a[b[0] ]", "{1, 2}", "{ {1, 2}, {3} }", "sizeof(int)", "sizeof...(T)", "alignof(T)", "(a, b)", "f((a, b), c)",
    "\"s\" \"t\"", "'c'", "1.5f", "0x1fULL", "nullptr", "u8\"x\"", "1'000", "a.b->c", "a->*b", "new int(3)", "static_cast<int>(a)",
    "[](int q) { return q; }", "[&](auto... xs) { return f(xs...); }(1, 2)", "f(\");\")", "f(')')", "f(\"}\", '{')", "(x;)", "f({1, 2}, [3])",
    "a[b[0]]", "a < b", "a > b", "a < b && c > d", "a <= b", "a >= b", "a >> 2", "a <=> b", "a < (b > c)", "f(a < b, c)", "f(a > b)", "v[a < b]",
    "T<1> {}", "T<(1 > 2)>::q", "operator+", "this->x", "typename X::template Y<Z>::type(1)", "a = b", "a += 1", "1 + (2 * (3 - (4 / 5)))",
    "1u + 2l + 3ul + 4lu + 5ll + 6ull + 7llu + 8LL + 9ULL + 10uLL + 11LLU + 12Ul + 13lU + 0x1fuL", '0_V + 017_perm + 1_V + 0x0_V + 0b0_V + 0.5_V + 0x1p1_V + \'c\'_V + u8\'c\'_V + "s"_V + L"s"_V', "0xDE'AD'BEEF", "0x1'0000'0000ull + 0b1'01 + 0'17",
] + REQ_EXPRS + TA_EXPRS + ["1 +\n\\\n2", "1 /* see **note** below */ + 2", "a // c\n + b"]
EXPRS = list(dict.fromkeys(EXPRS))  # each expression once, order kept
# token texts written down by hand where the expression exists to pin the lexing of one literal (everything else: lexed alone)
EXPECT_TOKENS = {"1 +\n\\\n2": ["1", "+", "2"], "1 /* see **note** below */ + 2": ["1", "+", "2"], "a // c\n + b": ["a", "+", "b"],
                 '0_V + 017_perm + 1_V + 0x0_V + 0b0_V + 0.5_V + 0x1p1_V + \'c\'_V + u8\'c\'_V + "s"_V + L"s"_V': '0_V + 017_perm + 1_V + 0x0_V + 0b0_V + 0.5_V + 0x1p1_V + \'c\'_V + u8\'c\'_V + "s"_V + L"s"_V'.split(),
                 "1u + 2l + 3ul + 4lu + 5ll + 6ull + 7llu + 8LL + 9ULL + 10uLL + 11LLU + 12Ul + 13lU + 0x1fuL":
                 "1u + 2l + 3ul + 4lu + 5ll + 6ull + 7llu + 8LL + 9ULL + 10uLL + 11LLU + 12Ul + 13lU + 0x1fuL".split(),
                 "0xDE'AD'BEEF": ["0xDE'AD'BEEF"], "0x1'0000'0000ull + 0b1'01 + 0'17": ["0x1'0000'0000ull", "+", "0b1'01", "+", "0'17"],
                 "0x1fULL": ["0x1fULL"], "1'000": ["1'000"], "u8\"x\"": ["u8\"x\""], "\"s\" \"t\"": ["\"s\"", "\"t\""], "f(\"}\", '{')": ["f", "(", "\"}\"", ",", "'{'", ")"]}
# expressions that are out of the property's scope in some positions (C++ itself makes them something else there)
def applicable(pos, expr, toks):
    name = pos[0]
    depth0 = depth0_tokens(toks)
    if name in REQ_POSITIONS:
        return expr in REQ_EXPRS
    if name.startswith("template-arg-bare"):
        return expr in TA_EXPRS
    if name in ("initializer", "second-declarator-init", "default-arg", "last-default-arg", "enumerator", "last-enumerator", "template-param-default",
                "field-default", "fnptr-param-default") and "," in depth0:
        return False  # a top-level comma ends the declarator / parameter / enumerator in C++ too
    if name in ("template-param-default",) and (">" in depth0 or ">>" in "".join(depth0)):
        return False  # a top-level '>' closes the template parameter list in C++ too
    if name == "pragma" and "\n" in expr:
        return False
    if name in ("initializer", "second-declarator-init", "field-default", "fnptr-param-default", "default-arg", "last-default-arg") and depth0[:1] == ["{"] and False:
        return False
    return True


def depth0_tokens(toks):
    out, depth = [], 0
    for t in toks:
        if t in ("(", "[", "{"):
            depth += 1
        elif t in (")", "]", "}", "]]"):
            depth -= 1 if t != "]]" else 2
        elif depth == 0:
            out.append(t)
    return out


def judge(pos, expr):
    from cxxheaderparser.simple import parse_string
    from cxxheaderparser.errors import CxxParseError

    name, tmpl, extract, (pre, post) = pos
    want = pre + (EXPECT_TOKENS.get(expr) or lex_values(expr)) + post
    src = tmpl.format(E=expr)
    try:
        d = parse_string(src)
    except CxxParseError as e:
        return f"parse error: {e}"
    try:
        got = extract(d)
    except Exception as e:  # noqa
        return f"value not where the position puts it ({type(e).__name__}: {e})"
    if got != want:
        return f"value tokens {got} expected {want}"
    names = [v.name.segments[-1].name for v in d.namespace.variables]
    if names.count("after") != 1 or names[-1] != "after":
        return f"following declaration disturbed: variables {names}"
    base_n = len(parse_string(tmpl.format(E=("Cq<X>" if name in REQ_POSITIONS else "1"))).namespace.variables)
    if len(names) != base_n:
        return f"{len(names)} variables reported, {base_n} written"
    return None


def angle_class(pos, expr):
    """known class D16: the failure disappears when every '<' / '>' family operator of the expression is replaced by '+'"""
    import re

    if not re.search(r"[<>]", expr):
        return False
    neutral = re.sub(r"<=>|<<|>>|<=|>=|<|>", "+", expr)
    return judge(pos, neutral) is None


def glued_brackets(expr):
    return "]]" in expr or "[[" in expr


EXCUSE = ()  # known-finding classes that are part of the assertion (holds(x) or known(x))


def classify(pos, expr, bad):
    if glued_brackets(expr):
        return "D5"
    if angle_class(pos, expr):
        return "D16"
    return "other"


def h_value(c0: int, c1: int) -> bool:
    """
    post: _
    """
    with NoTracing():
        ch = Chooser([c0, c1])
        pos = POSITIONS[ch.pick(len(POSITIONS))]
        expr = EXPRS[ch.pick(len(EXPRS))]
        if not applicable(pos, expr, lex_values(expr)):
            return True
        if TWIN:
            return False
        bad = judge(pos, expr)
        if bad is None:
            return True
        return (pos[0], expr, None) in EXCUSE or (pos[0], expr, bad) in EXCUSE


# ---------------------------------------------------------------------------------------------
# kernel: _consume_value_until over all token strings
# ---------------------------------------------------------------------------------------------

K_ALPHA = ["a", "(", ")", "[", "]", "{", "}", ",", ";", "+", "\"s\""]
K_MAX = 5


def k_reference(toks, terms=(",", ";")):
    """(value tokens, rest) or None when brackets do not balance before the value would end"""
    stack = []
    pairs = {")": "(", "]": "[", "}": "{"}
    out = []
    for i, t in enumerate(toks):
        if not stack and t in terms:
            return out, toks[i:]
        if t in "([{":
            stack.append(t)
        elif t in pairs:
            if not stack or stack[-1] != pairs[t]:
                return None
            stack.pop()
        out.append(t)
    return None


def k_judge(toks):
    from cxxheaderparser.simple import parse_string
    from cxxheaderparser.errors import CxxParseError

    ref = k_reference(toks + [";"])
    if ref is None or not ref[0]:
        return None  # unbalanced or empty: out of the kernel claim (C06 covers rejection)
    value, rest = ref
    if rest[0] != ";" or rest[1:] and any(t != ";" for t in rest[1:] if False):
        pass
    src = "int v = " + " ".join(toks) + " ; int after;"
    # only strings whose first terminator at depth 0 is the ';' we appended or an earlier ';' / ','
    try:
        d = parse_string(src)
    except CxxParseError as e:
        # what follows the value may legitimately be malformed (e.g. `, (`): only the well-formed continuations are claimed
        if rest[0] == ";" and all(t == ";" for t in rest):
            return f"parse error: {e}"
        return None
    got = vals(d.namespace.variables[0].value)
    if got != value:
        return f"value {got} expected {value}"
    return None


def h_kernel(c0: int, c1: int, c2: int, c3: int, c4: int, c5: int) -> bool:
    """
    post: _
    """
    with NoTracing():
        ch = Chooser([c0, c1, c2, c3, c4, c5])
        toks = ["a"]
        while len(toks) < K_MAX:
            k = ch.pick(len(K_ALPHA) + 1)
            if k == len(K_ALPHA):
                break
            toks.append(K_ALPHA[k])
        if TWIN:
            return False
        return k_judge(toks) is None


def k_replay(v):
    ch = Chooser(list(v), prefix=())
    toks = ["a"]
    while len(toks) < K_MAX:
        k = ch.pick(len(K_ALPHA) + 1)
        if k == len(K_ALPHA):
            break
        toks.append(K_ALPHA[k])
    return toks, k_judge(toks)


def run(tier):
    from .. import chrun
    from cxxheaderparser.parser import CxxParser

    ck = Check("C14", tier)
    kmax = 5 if tier == "quick" else 6
    ck.encode(CxxParser._consume_value_until, CxxParser._consume_balanced_tokens, CxxParser._create_value, CxxParser._parse_fn_end, CxxParser._parse_method_end,
              CxxParser._parse_array_type, CxxParser._parse_pqname_decltype_specifier, CxxParser._parse_requires, CxxParser._process_pragma_directive,
              CxxParser._parse_template_specialization, CxxParser._parse_enumerator_list, CxxParser._parse_field, CxxParser._parse_parameter)
    ck.bounds = dict(positions=[p[0] for p in POSITIONS], expressions=len(EXPRS), kernel_tokens=kmax, kernel_alphabet=K_ALPHA)
    ck.assume("the expected token texts of an expression are obtained by lexing the expression on its own with the real lexer (lexing is C08)",
              "an expression with a top-level comma is not generated in positions where C++ itself ends the declarator / parameter / enumerator there",
              "documented omissions: outer parentheses of throw / noexcept / decltype, array brackets; braces of a brace initializer are part of the value")
    ck.out_of_scope("expressions outside the listed grammar", "'<' '>' at the top level of a template argument list (ambiguous in C++ itself)")
    excuse = tuple((e["match"]["position"], e["match"]["expr"], e["match"].get("bad")) for e in ck.known if e.get("match", {}).get("kind") == "value")
    pool = chrun.make_pool()
    try:
        tw = chrun.run(__name__, "h_value", [(0, 0)], timeout=60, globs=dict(TWIN=True), pool=pool)
        chrun.record(ck, tw, "positions x expressions reachability twin", expect="refuted")
        res = chrun.run(__name__, "h_value", [(a,) for a in range(len(POSITIONS))], timeout=(150 if tier == "quick" else 600), globs=dict(EXCUSE=excuse), pool=pool)
        chrun.record(ck, res, "every value position x every expression: exact tokens, following declaration intact", bound=f"{len(POSITIONS)} positions x {len(EXPRS)} expressions")
        tw = chrun.run(__name__, "h_kernel", [(0,)], timeout=60, globs=dict(TWIN=True, K_MAX=kmax), pool=pool)
        chrun.record(ck, tw, "kernel reachability twin", expect="refuted")
        shards = [(a, b) for a in range(len(K_ALPHA)) for b in range(len(K_ALPHA) + 1)] + [(len(K_ALPHA),)]
        resk = chrun.run(__name__, "h_kernel", shards, timeout=(150 if tier == "quick" else 1200), globs=dict(K_MAX=kmax), pool=pool)
        chrun.record(ck, resk, "_consume_value_until through 'int v = <tokens> ;': longest prefix before the first depth-0 terminator", bound=f"<= {kmax} tokens over {len(K_ALPHA)} kinds")
    finally:
        pool.shutdown()
    seen = set()
    for shard, args, kw, msg in res.counterexamples:
        v = list(shard) + list(args)
        ch = Chooser(v, prefix=())
        pos = POSITIONS[ch.pick(len(POSITIONS))]
        expr = EXPRS[ch.pick(len(EXPRS))]
        bad = judge(pos, expr)
        ck.traces += 1
        if bad is None:
            raise HarnessError(f"counterexample did not reproduce: {msg}")
        cls = classify(pos, expr, bad)
        sig = (pos[0], cls, bad[:25])
        if sig in seen:
            continue
        seen.add(sig)
        body = ("from vf.props import c14\n" f"pos = [p for p in c14.POSITIONS if p[0] == {pos[0]!r}][0]\nbad = c14.judge(pos, {expr!r})\n"
                f"print(pos[1].format(E={expr!r})); print(bad)\nsys.exit(1 if bad else 0)\n")
        ck.violation(f"position {pos[0]}, expression {expr!r}: {bad}", ck.write_replay(body), key=dict(kind="value", cls=cls, position=pos[0], expr=expr, bad=bad))
    # listed known findings are re-demonstrated from their stored (position, expression)
    for e in ck.known:
        m = e.get("match", {})
        if m.get("kind") != "value":
            continue
        pos = next((p_ for p_ in POSITIONS if p_[0] == m["position"]), None)
        if pos is None or m["expr"] not in EXPRS:
            continue
        bad = judge(pos, m["expr"])
        ck.traces += 1
        if bad is not None and m.get("bad") not in (None, bad):
            continue  # a different failure of the same input: reported by the exploration above, not this listed finding
        if bad is not None:
            ck.known_hit(e, f"{pos[1].format(E=m['expr'])!r}: {bad[:100]}")
    globals()["K_MAX"] = kmax
    seen = set()
    for shard, args, kw, msg in resk.counterexamples:
        toks, bad = k_replay(list(shard) + list(args))
        ck.traces += 1
        if bad is None:
            raise HarnessError(f"kernel counterexample did not reproduce: {msg}")
        if bad[:30] in seen:
            continue
        seen.add(bad[:30])
        body = ("from vf.props import c14\n" f"c14.K_MAX = {kmax}\ntoks, bad = c14.k_replay({list(shard) + list(args)!r})\nprint('int v =', ' '.join(toks), '; int after;'); print(bad)\nsys.exit(1 if bad else 0)\n")
        ck.violation(f"'int v = {' '.join(toks)} ;': {bad}", ck.write_replay(body), key=dict(kind="kernel"))
    ck.sample(dict(positions=[p[1] for p in POSITIONS][:8]))
    ck.sample(dict(expressions=EXPRS[:20]))
    ck.extra["explanation"] = "CrossHair explores positions x expressions and all kernel token strings; each is parsed by the real parser and compared with the expression's own tokens"
    return ck
