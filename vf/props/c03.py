"""C03 - class bodies: member kinds, access levels and special members.

(a) Access tracking as an inductive step (E-CH traced): the class head is parsed through the public API, then the
    current access of the open class is replaced by a *symbolic string*, the anonymous-id counter by a symbolic
    integer, and ONE member (or access specifier, or complete nested class) is parsed: every emitted object carries
    exactly the pre-state access, a specifier sets it, nested classes use their own default and return to the same
    outer state object with unchanged access, anonymous types take id anon_id+1 shared by all their declarators.
    One step from an arbitrary state covers member sequences of any length.
(b) Method / field qualifiers (E-CH enumerated): every subset of the qualifier set is rendered and compared with an
    independently built Method / Field object.
(c) Constructor / destructor recognition with symbolic names; bases with all access/virtual orders.
(d) Member sequences with interleaved specifiers and nested classes, end to end (cross-check of the induction).
"""
import dataclasses

from crosshair.tracers import NoTracing

from ..chrun import Chooser
from ..common import Check, HarnessError
from .. import stublex
from ..recorder import Recorder, same_scope

TWIN = False
PRE = "PRE"

# (text, [(callback, expected access of the payload | None)], sets_access_to | None, anonymous types introduced)
MEMBERS = [
    ("int x;", [("on_class_field", PRE)], None, 0),
    ("static const int y = 3;", [("on_class_field", PRE)], None, 0),
    ("mutable int z : 3, w;", [("on_class_field", PRE), ("on_class_field", PRE)], None, 0),
    ("void f() const;", [("on_class_method", PRE)], None, 0),
    ("virtual int g(int a = 1) noexcept = 0;", [("on_class_method", PRE)], None, 0),
    ("A();", [("on_class_method", PRE)], None, 0),
    ("~A() {}", [("on_class_method", PRE)], None, 0),
    ("A(const A&) = delete;", [("on_class_method", PRE)], None, 0),
    ("A& operator=(A&&) = default;", [("on_class_method", PRE)], None, 0),
    ("explicit operator bool() const;", [("on_class_method", PRE)], None, 0),
    ("template <typename T> void tm(T t) {}", [("on_class_method", PRE)], None, 0),
    ("typedef int T, *PT;", [("on_typedef", PRE), ("on_typedef", PRE)], None, 0),
    ("using U = int;", [("on_using_alias", PRE)], None, 0),
    ("using Base::foo;", [("on_using_declaration", PRE)], None, 0),
    ("enum E { P, Q };", [("on_enum", PRE)], None, 0),
    ("enum class EC : int;", [("on_forward_decl", PRE)], None, 0),
    ("class F;", [("on_forward_decl", PRE)], None, 0),
    ("friend class G;", [("on_class_friend", PRE)], None, 0),
    ("friend void h(int);", [("on_class_friend", PRE)], None, 0),
    ("struct N { int n1; private: int n2; };", [("on_class_start", PRE), ("on_class_field", "public"), ("on_class_field", "private"), ("on_class_end", None)], None, 0),
    ("class M { int m1; public: struct MM { int mm; }; int m2; };",
     [("on_class_start", PRE), ("on_class_field", "private"), ("on_class_start", "public"), ("on_class_field", "public"), ("on_class_end", None),
      ("on_class_field", "public"), ("on_class_end", None)], None, 0),
    ("struct { int q; } anon1, *anon2;", [("on_class_start", PRE), ("on_class_field", "public"), ("on_class_end", None), ("on_class_field", PRE), ("on_class_field", PRE)], None, 1),
    ("union { int u1; float u2; };", [("on_class_start", PRE), ("on_class_field", "public"), ("on_class_field", "public"), ("on_class_end", None), ("on_class_field", PRE)], None, 1),
    ("typedef struct { int t; } TS;", [("on_class_start", PRE), ("on_class_field", "public"), ("on_class_end", None), ("on_typedef", PRE)], None, 1),
    ("enum { AN1 } ev;", [("on_enum", PRE), ("on_class_field", PRE)], None, 1),
    ("public:", [], "public", 0),
    ("private:", [], "private", 0),
    ("protected:", [], "protected", 0),
    ("static_assert(true);", [], None, 0),
    ("[[nodiscard]] int attr();", [("on_class_method", PRE)], None, 0),
]
HEADS = [
    ("struct A {", "public", 1),
    ("class A {", "private", 1),
    ("union A {", "public", 1),
    ("class A final : public B, virtual protected C {", "private", 1),
    ("template <typename T> class A {", "private", 1),
    ("struct O { private: class A {", "private", 2),
    ("namespace ns { struct O { protected: struct I { union A {", "public", 3),
]
CLOSERS = {1: "};", 2: "}; int after_inner; };", 3: "}; int a3; }; int a2; }; }"}
# what the callbacks after the closing brace(s) must carry (access in force in the *outer* classes: unaffected by the inner class)
AFTER = {1: [], 2: [("on_class_field", "private")], 3: [("on_class_field", "public"), ("on_class_field", "protected")]}


def payload_access(ev):
    if ev.name == "on_class_start":
        return ev.state.class_decl.access
    if ev.name == "on_class_friend":
        fr = ev.payload[0]
        return fr.fn.access if fr.fn is not None else fr.cls.access
    if ev.name in ("on_class_end", "on_namespace_end"):
        return None
    return ev.payload[0].access


def anon_ids(obj, out):
    from cxxheaderparser.types import AnonymousName

    if isinstance(obj, AnonymousName):
        out.append(obj.id)
    elif dataclasses.is_dataclass(obj) and not isinstance(obj, type):
        for f in dataclasses.fields(obj):
            anon_ids(getattr(obj, f.name), out)
    elif isinstance(obj, (list, tuple)):
        for x in obj:
            anon_ids(x, out)


def h_step(access: str, anon0: int, c0: int, c1: int) -> bool:
    """
    pre: len(access) <= 9
    pre: anon0 >= 0
    post: _
    """
    with NoTracing():
        ch = Chooser([c0, c1])
        head, default, depth = HEADS[ch.pick(len(HEADS))]
        text, expect, sets, nanon = MEMBERS[ch.pick(len(MEMBERS))]
        rec = Recorder()
        p = stublex.make_parser(stublex.raw_tokens(head + "\n"), rec)
        p.parse()
        st = p.state
        if type(st).__name__ != "ClassBlockState" or st.access != default:
            return False  # class-key default (also checked concretely in run())
        n0 = len(rec.events)
        visitor0 = p.visitor
    # arbitrary pre-state of the open class
    st.access = access
    p.anon_id = anon0
    with NoTracing():
        raws = stublex.raw_tokens(text + "\n")
        p.lex._lex = stublex.StubPly(raws, "f.h", list(range(50)))
    p.parse()
    if TWIN:
        return False
    evs = rec.events[n0:]
    if len(evs) != len(expect):
        return False
    if not same_scope(p.state, st) or p.visitor is not visitor0:
        return False
    st = p.state
    if sets is None:
        if st.access != access:
            return False
    elif st.access != sets:
        return False
    k = 0
    ids = []
    while k < len(evs):
        ev = evs[k]
        cb, acc = expect[k]
        if ev.name != cb:
            return False
        got = payload_access(ev)
        if acc == PRE:
            if got != access:
                return False
        elif acc is not None and got != acc:
            return False
        with NoTracing():
            if ev.name == "on_class_start":
                anon_ids(ev.state.class_decl.typename, ids)
            elif ev.payload:
                anon_ids(ev.payload[0], ids)
        k += 1
    # anonymous ids: exactly one fresh id, anon0 + 1, shared by every object that refers to the anonymous type
    if nanon == 0:
        if len(ids) != 0 or p.anon_id != anon0:
            return False
    else:
        if len(ids) == 0 or p.anon_id != anon0 + 1:
            return False
        for i in ids:
            if i != anon0 + 1:
                return False
    # close the class(es): the outer classes are where they were, with their own access
    with NoTracing():
        n1 = len(rec.events)
        p.lex._lex = stublex.StubPly(stublex.raw_tokens(CLOSERS[depth] + "\n"), "f.h", list(range(50)))
    p.parse()
    tail = [e for e in rec.events[n1:] if e.name == "on_class_field"]
    want = AFTER[depth]
    if len(tail) != len(want):
        return False
    k = 0
    while k < len(tail):
        if tail[k].payload[0].access != want[k][1]:
            return False
        k += 1
    return True


# ---------------------------------------------------------------------------------------------
# (b) qualifier subsets
# ---------------------------------------------------------------------------------------------

QUALS = ["virtual", "const", "volatile", "noexcept", "override", "final", "ref", "tail"]
TAILS = [None, "pure", "default", "delete", "body", "trailing", "throw-empty", "throw-list"]


def render_method(flags, tail, refq):
    pre = "virtual " if flags["virtual"] else ""
    s = f"{pre}int m(int a)" if tail != "trailing" else f"{pre}auto m(int a)"
    if flags["const"]:
        s += " const"
    if flags["volatile"]:
        s += " volatile"
    if refq:
        s += " " + refq
    if flags["noexcept"] and tail not in ("throw-empty", "throw-list"):
        s += " noexcept"
    if tail == "throw-empty":
        s += " throw()"
    if tail == "throw-list":
        s += " throw(E1, E2)"
    if tail == "trailing":
        s += " -> int"
    if flags["override"]:
        s += " override"
    if flags["final"]:
        s += " final"
    s += {None: ";", "pure": " = 0;", "default": " = default;", "delete": " = delete;", "body": " { return 1; }", "trailing": ";", "throw-empty": ";", "throw-list": ";"}[tail]
    return s


def expected_method(flags, tail, refq, access):
    from cxxheaderparser.types import Method, Type, PQName, NameSpecifier, FundamentalSpecifier, Parameter, Value, Token

    return Method(
        return_type=Type(PQName([FundamentalSpecifier("int")])),
        name=PQName([NameSpecifier("m")]),
        parameters=[Parameter(type=Type(PQName([FundamentalSpecifier("int")])), name="a")],
        access=access,
        virtual=flags["virtual"], const=flags["const"], volatile=flags["volatile"],
        noexcept=Value([]) if (flags["noexcept"] and tail not in ("throw-empty", "throw-list")) else None,
        throw=(Value([]) if tail == "throw-empty" else Value([Token("E1"), Token(","), Token("E2")]) if tail == "throw-list" else None),
        override=flags["override"], final=flags["final"], ref_qualifier=refq,
        pure_virtual=(tail == "pure"), default=(tail == "default"), deleted=(tail == "delete"),
        has_body=(tail == "body"), has_trailing_return=(tail == "trailing"),
    )


def h_quals(c0: int, c1: int, c2: int, c3: int, c4: int, c5: int, c6: int, c7: int, c8: int) -> bool:
    """
    post: _
    """
    with NoTracing():
        ch = Chooser([c0, c1, c2, c3, c4, c5, c6, c7, c8])
        src, want = build_quals(ch)
        bad = quals_judge(src, want)
        if TWIN:
            return False
        return bad is None


def build_quals(ch):
    tail = TAILS[ch.pick(len(TAILS))]
    refq = [None, "&", "&&"][ch.pick(3)]
    flags = {}
    for q in ("virtual", "const", "volatile", "noexcept", "override", "final"):
        flags[q] = ch.flag()
    key = ["struct", "class"][ch.pick(2)]
    spec = [None, "public", "protected", "private"][ch.pick(4)]
    access = spec or ("public" if key == "struct" else "private")
    src = f"{key} K {{ " + (f"{spec}: " if spec else "") + "int before; " + render_method(flags, tail, refq) + " int after; };"
    return src, expected_method(flags, tail, refq, access)


def quals_judge(src, want):
    from cxxheaderparser.simple import parse_string
    from cxxheaderparser.errors import CxxParseError

    try:
        d = parse_string(src)
    except CxxParseError as e:
        return f"parse error: {e}"
    cls = d.namespace.classes[0]
    if len(cls.methods) != 1 or len(cls.fields) != 2:
        return f"{len(cls.methods)} methods / {len(cls.fields)} fields reported"
    if cls.methods[0] != want:
        return f"method differs: got {cls.methods[0]} expected {want}"
    if [f.access for f in cls.fields] != [want.access, want.access] or [f.name for f in cls.fields] != ["before", "after"]:
        return "neighbouring fields wrong"
    return None


def quals_replay(vals):
    ch = Chooser(list(vals), prefix=())
    src, want = build_quals(ch)
    return src, quals_judge(src, want)


# ---------------------------------------------------------------------------------------------
# (c) constructor / destructor recognition, bases
# ---------------------------------------------------------------------------------------------

NAMES = ["A", "B", "AB", "A1", "a"]
CTX = ["plain", "template", "nested", "outofclass", "qualified", "qualified-template"]


def build_ctor(ch):
    a = NAMES[ch.pick(len(NAMES))]
    b = NAMES[ch.pick(len(NAMES))]
    ctx = CTX[ch.pick(len(CTX))]
    tilde = ch.flag()
    mem = ("~" if tilde else "") + b
    if ctx == "plain":
        src = f"struct {a} {{ {mem}(); }};"
    elif ctx == "template":
        src = f"template <typename T> class {a} {{ public: {mem}(); }};"
    elif ctx == "nested":
        src = f"struct Outer {{ struct {a} {{ {mem}(); }}; }};"
    elif ctx == "qualified":
        src = f"struct Outer {{ struct {a}; }}; struct Outer::{a} {{ {mem}(); int after; }};"
    elif ctx == "qualified-template":
        src = f"template <typename T> struct ns::Outer<T>::{a} {{ public: {mem}(); }};"
    else:
        src = f"{a}::{mem}() {{}}"
    return src, a, b, ctx, tilde


def ctor_judge(src, a, b, ctx, tilde):
    from cxxheaderparser.simple import parse_string
    from cxxheaderparser.errors import CxxParseError

    try:
        d = parse_string(src)
    except CxxParseError as e:
        # `B();` in class A with B != A has no return type: C++ rejects it too - either outcome is fine when names differ
        return None if a != b else f"parse error: {e}"
    if ctx == "outofclass":
        ms = d.namespace.method_impls
    elif ctx == "nested":
        ms = d.namespace.classes[0].classes[0].methods
    elif ctx == "qualified":
        ms = d.namespace.classes[1].methods
    else:
        ms = d.namespace.classes[0].methods
    if len(ms) != 1:
        return None if a != b else f"{len(ms)} methods reported"
    m = ms[0]
    want_c = (a == b) and not tilde
    want_d = (a == b) and tilde
    if a != b:
        # a member whose name differs from the class is never a constructor / destructor
        if m.constructor or m.destructor:
            return f"{m.name.format()} in class {a} flagged constructor={m.constructor} destructor={m.destructor}"
        return None
    if (m.constructor, m.destructor) != (want_c, want_d):
        return f"{src!r}: constructor={m.constructor} destructor={m.destructor}"
    if m.return_type is not None:
        return "constructor/destructor with a return type"
    return None


def h_ctor(c0: int, c1: int, c2: int, c3: int) -> bool:
    """
    post: _
    """
    with NoTracing():
        ch = Chooser([c0, c1, c2, c3])
        args = build_ctor(ch)
        bad = ctor_judge(*args)
        if TWIN:
            return False
        return bad is None


BASE_PARTS = ["public", "protected", "private", "virtual"]


def build_bases(ch):
    from cxxheaderparser.types import BaseClass, PQName, NameSpecifier

    key = ["struct", "class"][ch.pick(2)]
    default = "public" if key == "struct" else "private"
    bases, texts = [], []
    nb = 1 + ch.pick(2)
    for i in range(nb):
        order = ch.pick(5)  # none, access, virtual, access virtual, virtual access
        acc = BASE_PARTS[ch.pick(3)]
        pack = ch.flag() if i == nb - 1 else False
        pre = {0: "", 1: acc + " ", 2: "virtual ", 3: acc + " virtual ", 4: "virtual " + acc + " "}[order]
        texts.append(pre + f"B{i}" + ("..." if pack else ""))
        bases.append(BaseClass(access=(acc if order in (1, 3, 4) else default), typename=PQName([NameSpecifier(f"B{i}")]),
                               virtual=order in (2, 3, 4), param_pack=pack))
    return f"{key} D : " + ", ".join(texts) + " { int m; };", bases


def bases_judge(src, want):
    from cxxheaderparser.simple import parse_string
    from cxxheaderparser.errors import CxxParseError

    try:
        d = parse_string(src)
    except CxxParseError as e:
        return f"parse error: {e}"
    got = d.namespace.classes[0].class_decl.bases
    return None if got == want else f"bases {got} expected {want}"


def h_bases(c0: int, c1: int, c2: int, c3: int, c4: int, c5: int, c6: int, c7: int, c8: int) -> bool:
    """
    post: _
    """
    with NoTracing():
        ch = Chooser([c0, c1, c2, c3, c4, c5, c6, c7, c8])
        src, want = build_bases(ch)
        bad = bases_judge(src, want)
        if TWIN:
            return False
        return bad is None


# ---------------------------------------------------------------------------------------------
# (d) member sequences end to end
# ---------------------------------------------------------------------------------------------

SEQ_ITEMS = [
    ("int f{i};", "field"), ("void m{i}();", "method"), ("public:", "public"), ("private:", "private"), ("protected:", "protected"),
    ("struct N{i} {{ int n; private: int p; }};", "nested-struct"), ("class C{i} {{ int c; }};", "nested-class"),
    ("typedef int T{i};", "typedef"), ("struct {{ int a; }} an{i};", "anon"),
]
SEQ_LEN = 3


def build_seq(ch):
    key = ["struct", "class"][ch.pick(2)]
    cur = "public" if key == "struct" else "private"
    parts, expect = [], []  # expect: (kind, name, access)
    n = 0
    while n < SEQ_LEN:
        k = ch.pick(len(SEQ_ITEMS) + 1)
        if k == len(SEQ_ITEMS):
            break
        text, kind = SEQ_ITEMS[k]
        parts.append(text.format(i=n))
        if kind in ("public", "private", "protected"):
            cur = kind
        else:
            expect.append((kind, n, cur))
        n += 1
    return f"{key} K {{ " + " ".join(parts) + " };", expect


def seq_judge(src, expect):
    from cxxheaderparser.simple import parse_string
    from cxxheaderparser.errors import CxxParseError

    try:
        d = parse_string(src)
    except CxxParseError as e:
        return f"parse error: {e}"
    cls = d.namespace.classes[0]
    got = []
    for f in cls.fields:
        got.append(("field" if f.name.startswith("f") else "anon", int(f.name[-1]), f.access))
    for m in cls.methods:
        got.append(("method", int(m.name.segments[-1].name[-1]), m.access))
    for t in cls.typedefs:
        got.append(("typedef", int(t.name[-1]), t.access))
    anon_seen = 0
    for c in cls.classes:
        seg = c.class_decl.typename.segments[-1]
        nm = getattr(seg, "name", None)
        if nm is None:
            continue
        got.append(("nested-struct" if nm.startswith("N") else "nested-class", int(nm[-1]), c.class_decl.access))
        inner = [f.access for f in c.fields]
        want_inner = ["public", "private"] if nm.startswith("N") else ["private"]
        if inner != want_inner:
            return f"nested class {nm}: member access {inner}"
    if sorted(got) != sorted(expect):
        return f"members {sorted(got)} expected {sorted(expect)}"
    # anonymous struct + its declarator share one id, distinct per anonymous type
    ids = []
    for c in cls.classes:
        seg = c.class_decl.typename.segments[-1]
        if getattr(seg, "name", None) is None:
            ids.append(seg.id)
    fids = [f.type.typename.segments[-1].id for f in cls.fields if f.name.startswith("an")]
    if ids != fids or len(set(ids)) != len(ids) or ids != list(range(1, len(ids) + 1)):
        return f"anonymous ids: classes {ids} declarators {fids}"
    return None


def h_seq(c0: int, c1: int, c2: int, c3: int, c4: int, c5: int) -> bool:
    """
    post: _
    """
    with NoTracing():
        ch = Chooser([c0, c1, c2, c3, c4, c5])
        src, expect = build_seq(ch)
        bad = seq_judge(src, expect)
        if TWIN:
            return False
        return bad is None


REPLAYERS = {
    "h_quals": lambda vals: (lambda ch: (lambda s_w: (s_w[0], quals_judge(*s_w)))(build_quals(ch)))(Chooser(list(vals), prefix=())),
    "h_ctor": lambda vals: (lambda ch: (lambda a: (a[0], ctor_judge(*a)))(build_ctor(ch)))(Chooser(list(vals), prefix=())),
    "h_bases": lambda vals: (lambda ch: (lambda s_w: (s_w[0], bases_judge(*s_w)))(build_bases(ch)))(Chooser(list(vals), prefix=())),
    "h_seq": lambda vals: (lambda ch: (lambda s_w: (s_w[0], seq_judge(*s_w)))(build_seq(ch)))(Chooser(list(vals), prefix=())),
}


def step_concrete(hi, mi, access, anon0):
    """concrete re-run of the inductive step (for replays)"""
    from .. import chrun

    chrun.set_prefix((hi, mi))
    try:
        return h_step(access, anon0, 0, 0)
    finally:
        chrun.set_prefix(())


def run(tier):
    from .. import chrun
    from cxxheaderparser.parser import CxxParser
    from cxxheaderparser import parserstate

    ck = Check("C03", tier)
    ck.encode(CxxParser._parse_class_decl, CxxParser._parse_class_decl_base_clause, CxxParser._process_access_specifier, CxxParser._on_block_end,
              CxxParser._pop_state, CxxParser._parse_decl, CxxParser._parse_function, CxxParser._parse_method_end, CxxParser._parse_field,
              CxxParser._finish_class_or_enum, CxxParser._parse_friend_decl, parserstate.ClassBlockState)
    seqlen = 3 if tier == "quick" else 4
    ck.bounds = dict(inductive_step=f"{len(HEADS)} class heads (keys, bases, template, nesting depth 1-3) x {len(MEMBERS)} members, access = any string <= 9 chars, anon_id = any integer >= 0",
                     qualifier_subsets="6 boolean qualifiers x 3 ref-qualifiers x 6 tails x 2 keys x 4 specifiers", ctor_names=NAMES, member_sequences=seqlen)
    ck.assume("inductive step: the pre-state is produced by parsing the class head through the public API; the documented attributes state.access and parser.anon_id are then set to symbolic values",
              "character-level lexing in the inductive step is a replay of the real lexer's tokens (stub lexer), the parser and token stream are the real ones",
              "a member named differently from its class without return type is not valid C++: either a parse error or a non-special method is accepted")
    ck.out_of_scope(f"member sequences longer than {seqlen} other than through the inductive step", "nesting deeper than 3")
    # class-key defaults, concretely (the inductive harness returns False on a wrong default, which would be reported there as well)
    pool = chrun.make_pool()
    results = {}
    try:
        tw = chrun.run(__name__, "h_step", [(0, 0)], timeout=60, globs=dict(TWIN=True), pool=pool)
        chrun.record(ck, tw, "inductive step reachability twin", expect="refuted")
        shards = [(a, b) for a in range(len(HEADS)) for b in range(len(MEMBERS))]
        r = chrun.run(__name__, "h_step", shards, timeout=(120 if tier == "quick" else 600), pool=pool)
        chrun.record(ck, r, "inductive step: one member from an arbitrary class state (symbolic access string, symbolic anon_id)", bound=f"{len(shards)} (head, member) pairs, all strings <= 9 chars, all ids")
        results["h_step"] = r
        for name, shards, bound in (
            ("h_quals", [(a, b) for a in range(len(TAILS)) for b in range(3)], "all qualifier subsets"),
            ("h_ctor", [(a,) for a in range(len(NAMES))], f"names {NAMES} x 4 contexts x ctor/dtor"),
            ("h_bases", [(a, b) for a in range(2) for b in range(2)], "1-2 bases, all access/virtual orders, pack"),
            ("h_seq", [(a, b) for a in range(2) for b in range(len(SEQ_ITEMS) + 1)], f"member sequences <= {seqlen} over {len(SEQ_ITEMS)} items"),
        ):
            tw = chrun.run(__name__, name, [shards[0]], timeout=60, globs=dict(TWIN=True, SEQ_LEN=seqlen), pool=pool)
            chrun.record(ck, tw, f"{name} reachability twin", expect="refuted")
            r = chrun.run(__name__, name, shards, timeout=(120 if tier == "quick" else 900), globs=dict(SEQ_LEN=seqlen), pool=pool)
            chrun.record(ck, r, f"{name}", bound=bound)
            results[name] = r
    finally:
        pool.shutdown()
    globals()["SEQ_LEN"] = seqlen
    r = results["h_step"]
    seen = set()
    for shard, args, kw, msg in r.counterexamples:
        hi, mi = shard
        access = kw.get("access", args[0] if args else "x")
        anon0 = kw.get("anon0", args[1] if len(args) > 1 else 0)
        if (hi, mi) in seen:
            continue
        seen.add((hi, mi))
        body = ("from vf.props import c03\n" f"ok = c03.step_concrete({hi}, {mi}, {access!r}, {anon0!r})\n"
                f"print('class head', c03.HEADS[{hi}][0], '| member', c03.MEMBERS[{mi}][0], '| pre-state access', {access!r}, 'anon_id', {anon0!r}, '->', ok)\nsys.exit(0 if ok else 1)\n")
        p = ck.write_replay(body)
        ok, out = ck.run_replay(p)
        ck.traces += 1
        if not ok:
            raise HarnessError(f"inductive-step counterexample did not reproduce: {msg}\n{out}")
        ck.violation(f"class head {HEADS[hi][0]!r}, member {MEMBERS[mi][0]!r}, pre-state access {access!r}, anon_id {anon0}: emitted objects / state do not follow the pre-state",
                     p, key=dict(kind="access-step", member=MEMBERS[mi][0]))
    for name in ("h_quals", "h_ctor", "h_bases", "h_seq"):
        seen = set()
        for shard, args, kw, msg in results[name].counterexamples:
            src, bad = REPLAYERS[name](list(shard) + list(args))
            ck.traces += 1
            if bad is None:
                raise HarnessError(f"{name} counterexample did not reproduce: {msg} {src!r}")
            k = bad[:40]
            if k in seen:
                continue
            seen.add(k)
            body = ("from vf.props import c03\n" f"c03.SEQ_LEN = {seqlen}\nsrc, bad = c03.REPLAYERS[{name!r}]({list(shard) + list(args)!r})\nprint(src); print(bad)\nsys.exit(1 if bad else 0)\n")
            ck.violation(f"{bad} for {src!r}", ck.write_replay(body), key=dict(kind=name, what=k))
    ck.sample(dict(heads=[h[0] for h in HEADS]))
    ck.sample(dict(members=[m[0] for m in MEMBERS]))
    src, _ = REPLAYERS["h_seq"]([0, 5, 3, 0, 9, 9])
    ck.sample(dict(sequence_example=src))
    ck.extra["explanation"] = "CrossHair: inductive access/anon-id step with symbolic state on the real parser; exhaustive exploration of qualifier subsets, names, bases and member sequences"
    return ck
