"""C19 - preprocessor integration yields the main file's declarations only.

Filters (E-CH traced, symbolic strings): the real `_gcc_filter`, `_pcpp_filter`, `_msvc_filter` run under
CrossHair with symbolic main-file name f and marker name g and a lazily forked sequence of lines; a content line
must be kept iff the most recent line marker names exactly f.  io.StringIO is replaced by a list-collecting stub
(the C implementation would realise the symbolic strings).  Depfile writer: the escaping loop of
make_pcpp_preprocessor with symbolic dependency names and `open` stubbed.
End to end: solver-found name relations are materialised as real files and run through the gcc and pcpp
backends with parse_file (g++ and pcpp are installed; cl.exe is not: MSVC is decided at filter level only).
"""
import os
import shutil
import subprocess
import sys
import tempfile
import time

from crosshair.tracers import NoTracing

from ..chrun import Chooser
from ..common import Check, HarnessError

BACKEND = "gcc"
NLINES = 3
MAXF = 3
MAXG = 4
TWIN = False
ALPHA = "ab/. "


class FakeIO:
    def __init__(self, *a):
        self.parts = []

    def write(self, s):
        self.parts.append(s)

    def seek(self, n):
        pass

    def read(self):
        return self.parts


class FakeIOMod:
    StringIO = FakeIO


class DepCollector:
    """stands for the deps dict of _pcpp_filter: records the keys in order (a real dict would hash, i.e. realise, symbolic strings)"""

    def __init__(self):
        self.keys = []

    def __setitem__(self, k, v):
        self.keys.append(k)


class LineFile:
    """file object over a list of (possibly symbolic) lines"""

    def __init__(self, lines):
        self.lines = lines
        self.i = 0

    def readline(self):
        if self.i >= len(self.lines):
            return ""
        r = self.lines[self.i]
        self.i += 1
        return r

    def __iter__(self):
        return self

    def __next__(self):
        if self.i >= len(self.lines):
            raise StopIteration
        r = self.lines[self.i]
        self.i += 1
        return r


def marker(backend, name, n, flags=""):
    if backend == "gcc":
        return "# " + str(n) + ' "' + name + '"' + flags + "\n"
    return "#line " + str(n) + ' "' + name + '"\n'


def h_filter(f: str, g: str, c0: int, c1: int, c2: int, c3: int) -> bool:
    """
    pre: 1 <= len(f) <= MAXF and 1 <= len(g) <= MAXG
    pre: all(c in ALPHA for c in f) and all(c in ALPHA for c in g)
    post: _
    """
    from cxxheaderparser import preprocessor

    ch = Chooser([c0, c1, c2, c3])
    # first line: always the marker of the main file (all three backends emit it first)
    lines = [marker(BACKEND, f, 1)]
    names = [f]
    expect_keep = [True]
    cur_is_main = True
    k = 0
    while k < NLINES:
        kind = ch.pick(5)
        if kind == 0:
            lines.append("int x" + str(k) + ";\n")
            expect_keep.append(cur_is_main)
        elif kind == 4:
            # a directive the backends pass through: content, not a line marker, even though it starts with '#' and has quotes
            lines.append('#pragma comment(lib, "' + g + '")\n')
            expect_keep.append(cur_is_main)
        elif kind == 1:
            lines.append(marker(BACKEND, f, 5 + k, " 2" if BACKEND == "gcc" else ""))
            names.append(f)
            cur_is_main = True
            expect_keep.append(True)
        elif kind == 2:
            lines.append(marker(BACKEND, g, 1, " 1" if BACKEND == "gcc" else ""))
            names.append(g)
            cur_is_main = g == f
            expect_keep.append(cur_is_main)
        else:
            break
        k += 1
    old = preprocessor.io
    preprocessor.io = FakeIOMod
    deps = DepCollector()
    try:
        if BACKEND == "gcc":
            out = preprocessor._gcc_filter(f, LineFile(lines))
        elif BACKEND == "pcpp":
            out = preprocessor._pcpp_filter(f, LineFile(lines), deps)
        else:
            out = preprocessor._msvc_filter(LineFile(lines))
    finally:
        preprocessor.io = old
    if TWIN:
        return False
    want = [ln for ln, kp in zip(lines, expect_keep) if kp]
    if BACKEND == "msvc":
        want = want[1:]  # the msvc filter consumes the first marker
    if len(out) != len(want):
        return False
    i = 0
    while i < len(want):
        if out[i] != want[i]:
            return False
        i += 1
    if BACKEND == "pcpp":
        # deps: exactly the names of the line markers seen
        if len(deps.keys) != len(names):
            return False
        j = 0
        while j < len(names):
            if deps.keys[j] != names[j]:
                return False
            j += 1
    return True


def filter_concrete(backend, f, g, kinds):
    """concrete re-run; returns (lines, output lines, expected lines)"""
    import io
    from cxxheaderparser import preprocessor

    lines = [marker(backend, f, 1)]
    keep = [True]
    cur = True
    for k, kind in enumerate(kinds):
        if kind == 0:
            lines.append(f"int x{k};\n"); keep.append(cur)
        elif kind == 4:
            lines.append('#pragma comment(lib, "' + g + '")\n'); keep.append(cur)
        elif kind == 1:
            lines.append(marker(backend, f, 5 + k, " 2" if backend == "gcc" else "")); cur = True; keep.append(True)
        elif kind == 2:
            lines.append(marker(backend, g, 1, " 1" if backend == "gcc" else "")); cur = (g == f); keep.append(cur)
    fp = io.StringIO("".join(lines))
    if backend == "gcc":
        out = preprocessor._gcc_filter(f, fp)
    elif backend == "pcpp":
        out = preprocessor._pcpp_filter(f, fp, {})
    else:
        out = preprocessor._msvc_filter(fp)
    want = [ln for ln, kp in zip(lines, keep) if kp]
    if backend == "msvc":
        want = want[1:]
    return lines, out, "".join(want)


# ---------------------------------------------------------------------------------------------
# depfile writer with symbolic names
# ---------------------------------------------------------------------------------------------

DALPHA = "ab \\/."


class CollectFile:
    def __init__(self, sink):
        self.sink = sink

    def write(self, s):
        self.sink.append(s)

    def __enter__(self):
        return self

    def __exit__(self, *a):
        return False


def unescape(s):
    """inverse of make's escaping as the writer documents it: backslash-backslash -> backslash, backslash-space -> space"""
    out = []
    i = 0
    while i < len(s):
        if s[i] == "\\" and i + 1 < len(s) and s[i + 1] in "\\ ":
            out.append(s[i + 1])
            i += 2
        else:
            out.append(s[i])
            i += 1
    return "".join(out)


DEPLEN = 2


def h_depfile(d1: str) -> bool:
    """
    pre: 1 <= len(d1) <= DEPLEN
    pre: all(c in DALPHA for c in d1)
    post: _
    """
    d2 = "m y.h"
    # the escaping loop is the tail of make_pcpp_preprocessor._preprocess_file; it is exercised here through the real
    # function with pcpp, os.path and open stubbed so that only (deps -> text) remains
    from cxxheaderparser import preprocessor as pp

    sink = []
    text = run_depwriter(pp, ["t.o"], [d1, d2], sink)
    if TWIN:
        return False
    # un-escaping the entries gives back exactly the names (order reversed by the writer)
    parts = text.split(" \\\n  ")
    if parts[0] != "t.o:":
        return False
    ents = parts[1:]
    if len(ents) != 2:
        return False
    last = ents[1]
    if not last.endswith("\n"):
        return False
    got = [unescape(ents[0]), unescape(last[:-1])]
    return got == [d2, d1]


def run_depwriter(pp, target, deps, sink):
    """drive the real closure with a fake pcpp whose output mentions exactly `deps` as line markers"""

    class FakePP:
        def __init__(self, *a):
            self.errors = []
            self.return_code = 0
            self.rewrite_paths = []
            self.line_directive = "#"

        def add_path(self, p):
            pass

        def define(self, d):
            pass

        def parse(self, content, filename):
            self.filename = filename

        def write(self, fp):
            for d in deps:
                fp.write('#line 1 "' + d + '"\n')

    old = (pp._CustomPreprocessor, pp.io, pp.__dict__.get("open"))
    pp._CustomPreprocessor = FakePP
    pp.io = FakeIOMod2
    pp.open = lambda name, mode="r", **kw: CollectFile(sink)
    try:
        fn = pp.make_pcpp_preprocessor(depfile="dep.d", deptarget=target)
        fn("main.h", "int x;\n")
    finally:
        pp._CustomPreprocessor, pp.io = old[0], old[1]
        if old[2] is None:
            del pp.open
        else:
            pp.open = old[2]
    return "".join(sink)


class FakeIO2(FakeIO):
    """StringIO stand-in that can be iterated line by line after writes"""

    def read(self):
        return "".join(self.parts)

    def __iter__(self):
        return iter(self.parts)


class FakeIOMod2:
    StringIO = FakeIO2


# ---------------------------------------------------------------------------------------------
# end to end with the real backends
# ---------------------------------------------------------------------------------------------

E2E_SNIPPET = r'''
import os, sys, tempfile, shutil, pathlib
from cxxheaderparser.simple import parse_file
from cxxheaderparser.options import ParserOptions
from cxxheaderparser import preprocessor as pp

def e2e(backend, main_rel, inc_rel, use_subdir_include_path=False, retain=False, depfile=False, sysinc=False, incpaths=None, deptarget=None):
    """main includes inc; returns (names of variables seen, line of main_after, depfile text or None)"""
    d = tempfile.mkdtemp(prefix="vfc19_")
    try:
        mainp = os.path.join(d, main_rel)
        incp = os.path.join(d, inc_rel)
        os.makedirs(os.path.dirname(mainp), exist_ok=True)
        os.makedirs(os.path.dirname(incp), exist_ok=True)
        with open(incp, "w") as fp:
            fp.write("#define DECL(n) int n\nint from_inc;\n")
        rel = os.path.relpath(incp, os.path.dirname(mainp))
        with open(mainp, "w") as fp:
            fp.write('int main_before;\n#include "%s"\n%s\nDECL(from_macro); int main_after;\n' % (rel, "#include <stddef.h>" if sysinc else ""))
        kw = dict(retain_all_content=retain)
        dep = os.path.join(d, "out.d")
        if depfile:
            kw.update(depfile=pathlib.Path(dep), deptarget=list(deptarget or ["tgt.o"]))
        if incpaths is not None:
            kw.update(include_paths=[(d if p_ == "<root>" else p_) for p_ in incpaths])
        if backend == "gcc":
            fn = pp.make_gcc_preprocessor(print_cmd=False, **kw)
        else:
            fn = pp.make_pcpp_preprocessor(**kw)
        cwd = os.getcwd()
        os.chdir(d)
        try:
            lines = {}
            from vf.recorder import Recorder
            from cxxheaderparser.parser import CxxParser
            rec = Recorder()
            CxxParser(main_rel, None, rec, ParserOptions(preprocessor=fn)).parse()
            for ev in rec.events:
                if ev.name == "on_variable":
                    lines[ev.payload[0].name.segments[-1].name] = (ev.location.filename, ev.location.lineno)
            data = parse_file(main_rel, options=ParserOptions(preprocessor=fn))
        finally:
            os.chdir(cwd)
        names = [v.name.segments[-1].name for v in data.namespace.variables]
        # anything else at namespace level can only come from an included file (system headers declare typedefs)
        names += ["typedef:" + str(t.name) for t in data.namespace.typedefs]
        names += ["function:" + str(f.name.segments[-1].name) for f in data.namespace.functions]
        deptext = open(dep).read() if depfile and os.path.exists(dep) else None
        return names, lines, deptext
    finally:
        shutil.rmtree(d, ignore_errors=True)
'''

def e2e_symlink(backend):
    """the main file reached through a symbolic link that is also an include path: names of the variables seen"""
    import os, shutil, tempfile
    from cxxheaderparser.simple import parse_file
    from cxxheaderparser.options import ParserOptions
    from cxxheaderparser import preprocessor as pp

    d = tempfile.mkdtemp(prefix="vfc19_")
    try:
        real = os.path.join(d, "real")
        os.makedirs(real)
        with open(os.path.join(real, "inc.h"), "w") as fp:
            fp.write("int from_inc;\n")
        with open(os.path.join(real, "main.h"), "w") as fp:
            fp.write('int main_before;\n#include "inc.h"\nint main_after;\n')
        link = os.path.join(d, "link")
        os.symlink(real, link)
        kw = dict(include_paths=[link])
        fn = pp.make_gcc_preprocessor(print_cmd=False, **kw) if backend == "gcc" else pp.make_pcpp_preprocessor(**kw)
        data = parse_file(os.path.join(link, "main.h"), options=ParserOptions(preprocessor=fn))
        return [v.name.segments[-1].name for v in data.namespace.variables]
    finally:
        shutil.rmtree(d, ignore_errors=True)


_ns = {}


def e2e(*a, **kw):
    if "e2e" not in _ns:
        exec(E2E_SNIPPET, _ns)
    return _ns["e2e"](*a, **kw)


def e2e_judge(backend, main_rel, inc_rel, incpaths=None):
    """returns None or description of a violation"""
    names, lines, _ = e2e(backend, main_rel, inc_rel, incpaths=incpaths)
    if "from_inc" in names:
        return f"{backend}: declaration of the included file {inc_rel!r} reported for main {main_rel!r}: {names}"
    if names != ["main_before", "from_macro", "main_after"]:
        return f"{backend}: main {main_rel!r} including {inc_rel!r} -> variables {names}, expected main_before, from_macro, main_after"
    if lines.get("main_before", (None, 0))[1] != 1 or lines.get("main_after", (None, 0))[1] != 4:
        return f"{backend}: line numbers {lines} (expected main_before on 1, main_after on 4)"
    names2, _, _ = e2e(backend, main_rel, inc_rel, retain=True)
    if "from_inc" not in names2 or "main_after" not in names2:
        return f"{backend}: retain_all_content=True lost declarations: {names2}"
    return None


def run(tier):
    from .. import chrun
    from cxxheaderparser import preprocessor as pp

    ck = Check("C19", tier)
    ck.encode(pp._gcc_filter, pp._pcpp_filter, pp._msvc_filter, pp.make_pcpp_preprocessor, pp.make_gcc_preprocessor)
    maxf, maxg, nlines = (3, 4, 2) if tier == "quick" else (4, 5, 3)
    ck.bounds = dict(main_name_len=maxf, marker_name_len=maxg, alphabet=ALPHA, lines_after_first_marker=nlines, dep_name_len=3, dep_alphabet=DALPHA)
    ck.assume("io.StringIO is replaced by a list-collecting stub inside the filters (the C implementation would realise symbolic strings)",
              "the first line of every backend's output is the line marker of the main file",
              "line markers have the backend's documented shape: gcc '# N \"name\" flags', pcpp/msvc '#line N \"name\"'",
              "file names contain no double quote, backslash or newline in the symbolic filter harness (backslash handled in the depfile harness)",
              "cl.exe is not installed: the MSVC backend is decided at the filter level only")
    ck.out_of_scope("include depth > 2 end to end", "macro expansion itself (the backends' job)", "names longer than the bounds")
    pool = chrun.make_pool()
    cex = []
    try:
        import concurrent.futures as _cf

        def one(backend):
            g = dict(BACKEND=backend, MAXF=maxf, MAXG=maxg, NLINES=nlines)
            tw_ = chrun.run(__name__, "h_filter", [()], timeout=60, globs=dict(g, TWIN=True), pool=pool)
            shards = [(a, b) for a in (0, 1, 2, 4) for b in range(5)] + [(3,)]
            res_ = chrun.run(__name__, "h_filter", shards, timeout=(90 if tier == "quick" else 1200), globs=g, pool=pool)
            return backend, tw_, res_

        with _cf.ThreadPoolExecutor(3) as tp:
            for backend, tw, res in tp.map(one, ("gcc", "pcpp", "msvc")):
                chrun.record(ck, tw, f"{backend} filter reachability twin", expect="refuted")
                chrun.record(ck, res, f"{backend} filter: content kept iff last marker names exactly the main file",
                             bound=f"|f|<={maxf} |g|<={maxg} over {ALPHA!r}, {nlines} lines")
                for shard, args, kw, msg in res.counterexamples[:3]:
                    cex.append((backend, shard, args, kw, msg))
        tw = chrun.run(__name__, "h_depfile", [()], timeout=60, globs=dict(TWIN=True), pool=pool)
        chrun.record(ck, tw, "depfile writer reachability twin", expect="refuted")
        res = chrun.run(__name__, "h_depfile", [()], timeout=(90 if tier == "quick" else 900), globs=dict(DEPLEN=2 if tier == "quick" else 3), pool=pool)
        chrun.record(ck, res, "depfile writer: un-escaping the entries yields exactly the dependency names", bound=f"one symbolic name <= 2 (quick) / 3 (thorough) chars over {DALPHA!r} next to a fixed name with a space")
        depcex = res.counterexamples[:2]
        # the markers that survive the filters must be understood by the lexer whatever the file is called
        resm = chrun.run("vf.props.c10", "h_line_name", [()], timeout=(120 if tier == "quick" else 900), globs=dict(TWIN=False), pool=pool)
        chrun.record(ck, resm, "line markers: the lexer takes over exactly the quoted file name, for every name (t_PP_DIRECTIVE on a symbolic name)",
                     bound="all names <= 7 chars without quote / newline, both marker spellings")
    finally:
        pool.shutdown()
    for shard, args, kw, msg in resm.counterexamples[:2]:
        body = ("from vf.props import c10\n" f"try:\n    ok = c10.h_line_name(*{list(args)!r}, **{kw!r})\nexcept Exception as e:\n    print(repr(e)); ok = False\nprint(ok)\nsys.exit(0 if ok else 1)\n")
        pth = ck.write_replay(body)
        ok, out = ck.run_replay(pth)
        ck.traces += 1
        if not ok:
            raise HarnessError(f"line-marker counterexample did not reproduce: {msg}")
        ck.violation(f"a line marker with this file name is not understood by the lexer: {msg[:200]}", pth, key=dict(kind="marker-name"))

    # replay filter counterexamples: concrete filter run + real backend end to end
    seen = set()
    spurious = []
    for backend, shard, args, kw, msg in cex:
        f = kw.get("f", args[0] if args else "b")
        g = kw.get("g", args[1] if len(args) > 1 else "bb")
        vals = list(shard) + [a for a in args[2:]]
        ch = Chooser(vals, prefix=())
        kinds = []
        for _ in range(nlines):
            k = ch.pick(5)
            if k == 3:
                break
            kinds.append(k)
        lines, out, want = filter_concrete(backend, f, g, kinds)
        ck.traces += 1
        if out == want:
            # decided after the end-to-end runs: reported as a harness error unless a reproduced violation exists
            spurious.append(f"{backend} filter counterexample did not reproduce: f={f!r} g={g!r} kinds={kinds} ({msg})")
            continue
        rel = "suffix" if g.endswith(f) and g != f else ("prefix" if g.startswith(f) and g != f else "other")
        key = dict(kind="filter", backend=backend, relation=rel)
        if (backend, rel) in seen:
            continue
        seen.add((backend, rel))
        body = ("from vf.props import c19\n" f"lines, out, want = c19.filter_concrete({backend!r}, {f!r}, {g!r}, {kinds!r})\n"
                "print('input', lines); print('output', repr(out)); print('expected', repr(want))\nsys.exit(1 if out != want else 0)\n")
        ck.violation(f"{backend} filter with main {f!r} and marker name {g!r}: output {out!r}, expected {want!r}", ck.write_replay(body), key=key)
    for shard, args, kw, msg in depcex:
        d1 = kw.get("d1", args[0] if args else "a")
        d2 = "m y.h"
        body = ("from vf.props import c19\nfrom cxxheaderparser import preprocessor as pp\n"
                f"sink = []\ntext = c19.run_depwriter(pp, ['t.o'], [{d1!r}, {d2!r}], sink)\nprint(repr(text))\n"
                "parts = text.split(' \\\\\\n  ')\n"
                f"ok = len(parts) == 3 and [c19.unescape(parts[1]), c19.unescape(parts[2][:-1])] == [{d2!r}, {d1!r}]\nsys.exit(0 if ok else 1)\n")
        path = ck.write_replay(body)
        ok, out = ck.run_replay(path)
        ck.traces += 1
        if not ok:
            raise HarnessError(f"depfile counterexample did not reproduce: {msg}\n{out}")
        ck.violation(f"depfile entries for {d1!r}, {d2!r} do not un-escape to the names: {out.strip()[-200:]}", path, key=dict(kind="depfile"))

    # end to end with the real backends on name relations (suffix, prefix, sub-directory, space)
    t = time.time()
    pairs = [("main.h", "xmain.h"), ("main.h", "sub/main.h"), ("a.h", "b.h"), ("sub/main.h", "main.h"), ("main.h", "main.hx"),
             ("my main.h", "inc dir/other.h"), ("m.h", "dir.h/m.h2"), ("h", "hh")]
    if tier == "thorough":
        pairs += [("x/y/main.h", "y/main.h"), ("main.h", "amain.h.h"), ("a b/c.h", "b/c.h"), ("README", "hh"), ("main.hpp", "main.h")]
    have_gpp = shutil.which("g++") is not None
    try:
        import pcpp  # noqa
        have_pcpp = True
    except ImportError:
        have_pcpp = False
    n_e2e = 0
    for backend, have in (("gcc", have_gpp), ("pcpp", have_pcpp)):
        if not have:
            ck.skip(f"{backend} end to end", "backend not installed")
            continue
        for main_rel, inc_rel in pairs:
            bad = e2e_judge(backend, main_rel, inc_rel)
            n_e2e += 1
            ck.traces += 2
            ck.sample(dict(backend=backend, main=main_rel, include=inc_rel, verdict=bad or "ok"), limit=30)
            if bad:
                rel = "no-extension" if "." not in os.path.basename(main_rel) else ("suffix" if inc_rel.endswith(main_rel) else "other")
                body = ("from vf.props import c19\n" f"bad = c19.e2e_judge({backend!r}, {main_rel!r}, {inc_rel!r})\nprint(bad)\nsys.exit(1 if bad else 0)\n")
                ck.violation(bad, ck.write_replay(body), key=dict(kind="e2e", backend=backend, relation=rel))
        # the main file named by a relative path that also lies below an include path
        for incpaths in (["."], ["<root>"], [".", "<root>"]):
            bad = e2e_judge(backend, "main.h", "sub/inc.h", incpaths=incpaths)
            n_e2e += 1
            ck.traces += 2
            if bad:
                body = ("from vf.props import c19\n" f"bad = c19.e2e_judge({backend!r}, 'main.h', 'sub/inc.h', incpaths={incpaths!r})\nprint(bad)\nsys.exit(1 if bad else 0)\n")
                ck.violation(f"{bad} [include paths {incpaths}]", ck.write_replay(body), key=dict(kind="e2e", backend=backend, relation="include-path"))
        # the main file reached through a symbolic link that is also an include path
        names_l = e2e_symlink(backend)
        n_e2e += 1
        ck.traces += 1
        if names_l != ["main_before", "main_after"]:
            body = ("from vf.props import c19\n" f"names = c19.e2e_symlink({backend!r})\nprint(names)\nsys.exit(0 if names == ['main_before', 'main_after'] else 1)\n")
            ck.violation(f"{backend}: main file reached through a symbolic link below an include path -> variables {names_l}, expected main_before, main_after", ck.write_replay(body),
                         key=dict(kind="e2e", backend=backend, relation="symlink"))
        # depfile targets are written so that Make reads them back as given
        tgts = ["my project/w.o", "st$1"]
        _, _, dt = e2e(backend, "main.h", "inc.h", depfile=True, deptarget=tgts)
        n_e2e += 1
        if dt is None or not dt.lstrip().startswith("my\\ project/w.o st$$1:"):
            body = ("from vf.props import c19\n" f"_, _, dt = c19.e2e({backend!r}, 'main.h', 'inc.h', depfile=True, deptarget={tgts!r})\nprint(repr(dt))\n"
                    "sys.exit(0 if dt and dt.lstrip().startswith('my\\\\ project/w.o st$$1:') else 1)\n")
            ck.violation(f"{backend}: depfile targets {tgts} are not written in Make's quoting: {dt!r}", ck.write_replay(body), key=dict(kind="e2e-depfile-target", backend=backend))
        # depfile end to end
        sysinc = backend == "gcc"  # pcpp does not resolve system headers (passes the include through)
        try:
            names, lines, deptext = e2e(backend, "main.h", "inc dir/o ther.h", depfile=True, sysinc=sysinc)
        except Exception as e:
            if "stddef.h" not in str(e):
                raise
            # the parser was handed text of the system header (main.h itself parses: see the runs above)
            names, lines, deptext = [f"parse error inside the included file: {str(e)[:160]}"], {}, None
            body = ("from vf.props import c19\n" f"names, lines, dep = c19.e2e({backend!r}, 'main.h', 'inc dir/o ther.h', depfile=True, sysinc={sysinc!r})\nprint(names)\n"
                    "sys.exit(0 if names == ['main_before', 'from_macro', 'main_after'] else 1)\n")
            ck.violation(f"{backend}: main file including a local and a system header -> {names[0]}", ck.write_replay(body),
                         key=dict(kind="e2e", backend=backend, relation="system-header"))
            continue
        n_e2e += 1
        ok = deptext is not None and "tgt.o" in deptext and "main.h" in deptext and "inc\\ dir/o\\ ther.h" in deptext
        ok = ok and (not sysinc or "stddef.h" in deptext)
        # gcc marks system headers with several flags ('# 1 "/usr/.../stddef.h" 1 3 4'): nothing of them may be reported
        if names != ["main_before", "from_macro", "main_after"]:
            body = ("from vf.props import c19\n" f"names, lines, dep = c19.e2e({backend!r}, 'main.h', 'inc dir/o ther.h', depfile=True, sysinc={sysinc!r})\nprint(names)\n"
                    "sys.exit(0 if names == ['main_before', 'from_macro', 'main_after'] else 1)\n")
            ck.violation(f"{backend}: main file including a local and a system header -> namespace content {names[:8]}, expected main_before, from_macro, main_after",
                         ck.write_replay(body), key=dict(kind="e2e", backend=backend, relation="system-header"))
        if not ok:
            body = ("from vf.props import c19\n" f"names, lines, dep = c19.e2e({backend!r}, 'main.h', 'inc dir/o ther.h', depfile=True, sysinc={sysinc!r})\nprint(dep)\n"
                    f"sys.exit(0 if (dep and 'tgt.o' in dep and 'main.h' in dep and 'inc\\\\ dir/o\\\\ ther.h' in dep and (not {sysinc!r} or 'stddef.h' in dep)) else 1)\n")
            ck.violation(f"{backend}: depfile does not name target and every file read: {deptext!r}", ck.write_replay(body), key=dict(kind="e2e-depfile", backend=backend))
    ck.sub("end to end through g++ / pcpp with parse_file (names, line numbers, retain_all_content, depfile)", "replay",
           "holds" if not [v for v in ck.violations if v["key"]["kind"].startswith("e2e")] else "flagged", runs=n_e2e, wall_s=round(time.time() - t, 1))
    ck.extra["explanation"] = ("CrossHair decides the filter predicate for all main/marker names (symbolic strings) and line sequences inside the "
                               "bound on the real filter functions; real g++ / pcpp runs confirm name relations end to end")
    if spurious and not [v for v in ck.violations if not v.get("known")]:
        # a counterexample that the concrete filter does not show and nothing else reproduced: harness error, not an alarm
        raise HarnessError(spurious[0])
    return ck
