"""C02 - declarators decode to the C++ type they denote.

Engine E-CH.  (a) CrossHair explores type trees (6 base types x wrapper sequences up to a depth bound: pointers with
cv, lvalue / rvalue references, arrays with / without bound, function types with 0 / 1 / vararg parameters, only C++-legal
nestings) x declaration contexts (variable, parameter, field, typedef, alias, return type, template argument, second
declarator, member of an anonymous struct).  The tree is printed by an independent inside-out printer and parsed;
oracle: the generator's own tree and the core identifier.
(b) Token side: ALL token strings up to a length bound over the declarator alphabet, judged by a reference declarator
parser written from the C++ grammar; whenever the reference accepts, `int <tokens>;` must yield exactly its tree.
(c) The temporarily swapped token stream of the template-argument trial parse is restored after every parse (also
failed ones), and type-ids are classified as types, everything else as values.
"""
from crosshair.tracers import NoTracing

from ..chrun import Chooser
from ..common import Check, HarnessError
from .. import gtypes as G

TWIN = False
DEPTH = 2
NTOK = 5


def contexts():
    from cxxheaderparser.types import FunctionType

    def var(d):
        return d.namespace.variables[0].type, d.namespace.variables[0].name.segments[-1].name

    return [
        ("variable", lambda t: G.declarator(t, "x") + ";", var, "named", lambda t: not isinstance(t, FunctionType)),
        ("second-declarator", None, lambda d: (d.namespace.variables[1].type, d.namespace.variables[1].name.segments[-1].name), "second", lambda t: not isinstance(t, FunctionType)),
        ("parameter", lambda t: "void f(" + G.declarator(t, "x") + ");", lambda d: (d.namespace.functions[0].parameters[0].type, d.namespace.functions[0].parameters[0].name), "named",
         lambda t: not isinstance(t, FunctionType)),
        ("unnamed-parameter", lambda t: "void f(int a, " + G.declarator(t, "") + ");", lambda d: (d.namespace.functions[0].parameters[1].type, "x" if d.namespace.functions[0].parameters[1].name is None else "?"), "abstract",
         lambda t: not isinstance(t, FunctionType)),
        ("field", lambda t: "struct S { " + G.declarator(t, "x") + "; };", lambda d: (d.namespace.classes[0].fields[0].type, d.namespace.classes[0].fields[0].name), "named",
         lambda t: not isinstance(t, FunctionType)),
        ("typedef", lambda t: "typedef " + G.declarator(t, "x") + ";", lambda d: (d.namespace.typedefs[0].type, d.namespace.typedefs[0].name), "named", lambda t: True),
        ("alias", lambda t: "using x = " + G.declarator(t, "") + ";", lambda d: (d.namespace.using_alias[0].type, d.namespace.using_alias[0].alias), "abstract",
         lambda t: not isinstance(t, FunctionType)),
        ("template-argument", lambda t: "W<" + G.declarator(t, "") + ", 3> x;", lambda d: (d.namespace.variables[0].type.typename.segments[0].specialization.args[0].arg, "x"), "abstract",
         lambda t: True),
        ("return-type", lambda t: G.declarator(t, "x(int q)") + ";", lambda d: (d.namespace.functions[0].return_type, d.namespace.functions[0].name.segments[-1].name), "fn",
         lambda t: not isinstance(t, (FunctionType,)) and G.kind(t) != "Array"),
        ("method-parameter", lambda t: "struct S { void m(" + G.declarator(t, "x") + ") const; };", lambda d: (d.namespace.classes[0].methods[0].parameters[0].type, d.namespace.classes[0].methods[0].parameters[0].name), "named",
         lambda t: not isinstance(t, FunctionType)),
        ("trailing-return", lambda t: "auto x(int q) -> " + G.declarator(t, "") + ";", lambda d: (d.namespace.functions[0].return_type, d.namespace.functions[0].name.segments[-1].name), "abstract",
         lambda t: not isinstance(t, (FunctionType,)) and G.kind(t) != "Array"),
    ]


CTX = None


def render(ctx, t):
    if ctx[0] == "second-declarator":
        # second declarator of a multi-declaration: the base type is shared, so print the declarator part only
        full = G.declarator(t, "x")
        base = G.fmt_base(base_of(t))
        assert full.startswith(base)
        return base + " first, " + full[len(base):].strip() + ";"
    return ctx[1](t)


def base_of(t):
    while G.child(t) is not None:
        t = G.child(t)
    return t


def tree_judge(ctx, t):
    from cxxheaderparser.simple import parse_string
    from cxxheaderparser.errors import CxxParseError

    src = render(ctx, t)
    try:
        d = parse_string(src)
    except CxxParseError as e:
        return src, f"parse error: {e}"
    try:
        ty, nm = ctx[2](d)
    except Exception as e:  # noqa
        return src, f"declaration reported as a different kind ({type(e).__name__}: {e})"
    if nm != "x":
        return src, f"name {nm!r} instead of 'x'"
    if ty != t:
        return src, f"type {G.sig(ty) if not isinstance(ty, str) else ty} instead of {G.sig(t)}: got {ty!r}"
    return src, None


def needs_group(t):
    """the tree contains a pointer / reference whose target is an array or function type: written with grouping parentheses"""
    from cxxheaderparser.types import Array, FunctionType, Pointer, Reference, MoveReference

    while t is not None:
        if isinstance(t, (Pointer, Reference, MoveReference)) and isinstance(G.child(t), (Array, FunctionType)):
            return True
        t = G.child(t)
    return False


def has_array(t):
    while t is not None:
        if G.kind(t) == "Array":
            return True
        t = G.child(t)
    return False


def known_class(ctx, t, bad):
    if ctx[0] == "template-argument" and (needs_group(t) or has_array(t)):
        return "D20"
    return "other"


EXCUSE = ()


def h_tree(c0: int, c1: int, c2: int, c3: int, c4: int, c5: int) -> bool:
    """
    post: _
    """
    with NoTracing():
        global CTX
        if CTX is None:
            CTX = contexts()
        ch = Chooser([c0, c1, c2, c3, c4, c5])
        ctx = CTX[ch.pick(len(CTX))]
        t, desc = G.gen_type(ch, DEPTH)
        if t is None or not ctx[4](t):
            return True
        if TWIN:
            return False
        src, bad = tree_judge(ctx, t)
        return bad is None or known_class(ctx, t, bad) in EXCUSE


def tree_replay(vals, depth):
    global CTX
    if CTX is None:
        CTX = contexts()
    ch = Chooser(list(vals), prefix=())
    ctx = CTX[ch.pick(len(CTX))]
    t, desc = G.gen_type(ch, depth)
    if t is None or not ctx[4](t):
        return ctx[0], None, None, None, None
    src, bad = tree_judge(ctx, t)
    return ctx[0], G.sig(t), src, bad, (known_class(ctx, t, bad) if bad else None)


# ---------------------------------------------------------------------------------------------
# token side
# ---------------------------------------------------------------------------------------------

T_ALPHA = ["*", "&", "&&", "const", "(", ")", "[", "]", "x", "3", "volatile"]


def tok_judge(toks):
    from cxxheaderparser.simple import parse_string
    from cxxheaderparser.errors import CxxParseError
    from cxxheaderparser.types import FunctionType

    try:
        want, nm = G.ref_parse(toks)
    except G.Reject:
        return None
    if isinstance(want, FunctionType):
        return None  # `int x();` declares a function, not a variable: covered by the return-type context
    src = "int " + " ".join(toks) + " ;"
    try:
        d = parse_string(src)
    except CxxParseError as e:
        return f"{src!r}: parse error {e}; the declarator denotes {G.sig(want)}"
    try:
        v = d.namespace.variables[0]
    except Exception:  # noqa
        return f"{src!r}: not reported as a variable; the declarator denotes {G.sig(want)}"
    if v.type != want or v.name.segments[-1].name != "x":
        return f"{src!r}: parsed as {G.sig(v.type)} name {v.name.segments[-1].name}, the declarator denotes {G.sig(want)}"
    return None


def h_tok(c0: int, c1: int, c2: int, c3: int, c4: int, c5: int, c6: int, c7: int) -> bool:
    """
    post: _
    """
    with NoTracing():
        ch = Chooser([c0, c1, c2, c3, c4, c5, c6, c7])
        toks = []
        while len(toks) < NTOK:
            k = ch.pick(len(T_ALPHA) + 1)
            if k == len(T_ALPHA):
                break
            toks.append(T_ALPHA[k])
        if TWIN:
            return False
        bad = tok_judge(toks)
        return bad is None or tok_class(toks) in EXCUSE


def tok_class(toks):
    for a, b in zip(toks, toks[1:]):
        if a == "(" and b == "(":
            return "D22"
    return "other"


def tok_replay(vals, ntok):
    ch = Chooser(list(vals), prefix=())
    toks = []
    while len(toks) < ntok:
        k = ch.pick(len(T_ALPHA) + 1)
        if k == len(T_ALPHA):
            break
        toks.append(T_ALPHA[k])
    return toks, tok_judge(toks)


# ---------------------------------------------------------------------------------------------
# (c) template-argument trial parse: stream restored, type-vs-value classification
# ---------------------------------------------------------------------------------------------

TARGS = [
    ("int", "type"), ("const int*", "type"), ("int&", "type"), ("int(int)", "type"), ("void(*)(int)", "type"), ("ns::T<int>", "type"), ("int[3]", "value?"),
    ("3", "value"), ("1 + 2", "value"), ("sizeof(int)", "value"), ("(a > b)", "value"), ("&x", "value"), ("\"s\"", "value"), ("a::b", "type"), ("typename T::type", "type"),
    ("T...", "type-pack"), ("sizeof...(T)", "value"), ("unsigned long long", "type"), ("decltype(x)", "type"), ("int&&", "type"), ("const volatile ns::U * const", "type"),
    ("f(1)", "value"), ("x ? 1 : 2", "value"), ("-1", "value"), ("true", "value"), ("nullptr", "value"), ("a.b", "value"), ("int (&)[3]", "type"), ("int (*)[3]", "type"),
]


GROUPED = ("void(*)(int)", "int (&)[3]", "int (*)[3]")


def targ_judge(i, j):
    from cxxheaderparser.parser import CxxParser
    from cxxheaderparser.simple import SimpleCxxVisitor
    from cxxheaderparser.errors import CxxParseError
    from cxxheaderparser.types import Value

    a, ka = TARGS[i]
    b, kb = TARGS[j]
    src = f"W<{a}, {b}> x; int after;"
    v = SimpleCxxVisitor()
    p = CxxParser("t.h", src, v, None)
    stream = p.lex
    try:
        p.parse()
    except CxxParseError as e:
        if p.lex is not stream:
            return src, "token stream not restored after a failed parse"
        return src, f"parse error: {e}"
    if p.lex is not stream:
        return src, "token stream not restored after the template-argument trial parse"
    args = v.data.namespace.variables[0].type.typename.segments[0].specialization.args
    if len(args) != 2:
        return src, f"{len(args)} template arguments reported"
    for (text, k), arg in zip(((a, ka), (b, kb)), args):
        is_val = isinstance(arg.arg, Value)
        if k == "value" and not is_val:
            return src, f"argument {text!r} reported as a type"
        if k in ("type", "type-pack") and is_val:
            return src, f"type-id argument {text!r} reported as a raw value"
        if (k == "type-pack") != arg.param_pack and k != "value?":
            if not (text.startswith("sizeof...")):
                return src, f"argument {text!r}: param_pack={arg.param_pack}"
    names = [x.name.segments[-1].name for x in v.data.namespace.variables]
    if names != ["x", "after"]:
        return src, f"variables {names}"
    return src, None


def h_targ(c0: int, c1: int) -> bool:
    """
    post: _
    """
    with NoTracing():
        ch = Chooser([c0, c1])
        i, j = ch.pick(len(TARGS)), ch.pick(len(TARGS))
        if TWIN:
            return False
        src, bad = targ_judge(i, j)
        return bad is None or ("D20" in EXCUSE and bad.startswith("type-id argument") and any(TARGS[k][0] in GROUPED and repr(TARGS[k][0]) in bad for k in (i, j)))


def run(tier):
    from .. import chrun
    from cxxheaderparser.parser import CxxParser
    from cxxheaderparser.lexer import BoundedTokenStream

    ck = Check("C02", tier)
    depth, ntok = (2, 4) if tier == "quick" else (3, 5)
    ck.encode(CxxParser._parse_cv_ptr_or_fn, CxxParser._parse_cv_ptr, CxxParser._parse_array_type, CxxParser._parse_pqname, CxxParser._parse_pqname_fundamental,
              CxxParser._parse_template_specialization, CxxParser._parse_trailing_return_type, CxxParser._parse_parameter, BoundedTokenStream)
    ctxs = contexts()
    ck.bounds = dict(tree_depth=depth, base_types=len(G.base_types()), wrappers=G.WRAPS, contexts=[c[0] for c in ctxs], token_strings=f"<= {ntok} tokens over {T_ALPHA}", template_argument_pairs=len(TARGS) ** 2)
    ck.assume("the independent printer follows the C++ inside-out rule (parentheses around pointer / reference declarators of arrays and functions)",
              "only C++-legal nestings are generated (no pointer / reference to reference, no arrays of references or functions, no functions returning arrays or functions)",
              "a top-level function type is only used where C++ allows one (typedef, template argument)")
    ck.out_of_scope("member pointers (documented TODO in the parser)", f"trees deeper than {depth}", "decltype / auto combined with deep declarators")
    excuse = tuple(sorted({e["match"]["cls"] for e in ck.known if "cls" in e.get("match", {})}))
    pool = chrun.make_pool()
    try:
        g = dict(DEPTH=depth, NTOK=ntok, EXCUSE=excuse)
        tw = chrun.run(__name__, "h_tree", [(0, 0)], timeout=60, globs=dict(g, TWIN=True), pool=pool)
        chrun.record(ck, tw, "type trees reachability twin", expect="refuted")
        shards = [(a, b) for a in range(len(ctxs)) for b in range(len(G.base_types()))]
        rt = chrun.run(__name__, "h_tree", shards, timeout=(200 if tier == "quick" else 2400), globs=g, pool=pool)
        chrun.record(ck, rt, "every legal type tree in every context decodes to itself", bound=f"depth <= {depth}, {len(ctxs)} contexts")
        tw = chrun.run(__name__, "h_tok", [(8,)], timeout=60, globs=dict(g, TWIN=True), pool=pool)
        chrun.record(ck, tw, "token side reachability twin", expect="refuted")
        shards = [(a, b) for a in range(len(T_ALPHA)) for b in range(len(T_ALPHA) + 1)] + [(len(T_ALPHA),)]
        rk = chrun.run(__name__, "h_tok", shards, timeout=(200 if tier == "quick" else 2400), globs=g, pool=pool)
        chrun.record(ck, rk, "all declarator token strings vs the reference declarator parser", bound=f"<= {ntok} tokens over {len(T_ALPHA)} kinds")
        ra = chrun.run(__name__, "h_targ", [(a,) for a in range(len(TARGS))], timeout=120, globs=g, pool=pool)
        chrun.record(ck, ra, "template arguments: stream restored, type-ids reported as types, the rest as values, packs flagged", bound=f"{len(TARGS)} x {len(TARGS)} argument pairs")
    finally:
        pool.shutdown()
    seen = set()
    for shard, args, kw, msg in rt.counterexamples:
        cname, sg, src, bad, cls = tree_replay(list(shard) + list(args), depth)
        ck.traces += 1
        if bad is None:
            raise HarnessError(f"tree counterexample did not reproduce: {msg}")
        key = (cname, bad[:30])
        if key in seen or len(seen) > 14:
            continue
        seen.add(key)
        body = ("from vf.props import c02\n" f"r = c02.tree_replay({list(shard) + list(args)!r}, {depth})\nprint(r)\nsys.exit(1 if r[3] else 0)\n")
        ck.violation(f"context {cname}, tree {sg}, source {src!r}: {bad[:200]}", ck.write_replay(body), key=dict(kind="tree", cls=cls, context=cname, what=bad[:30]))
    seen = set()
    for shard, args, kw, msg in rk.counterexamples:
        toks, bad = tok_replay(list(shard) + list(args), ntok)
        ck.traces += 1
        if bad is None:
            raise HarnessError(f"token-side counterexample did not reproduce: {msg} {toks}")
        if len(seen) > 10:
            continue
        seen.add(bad[:30])
        body = ("from vf.props import c02\n" f"toks, bad = c02.tok_replay({list(shard) + list(args)!r}, {ntok})\nprint(toks); print(bad)\nsys.exit(1 if bad else 0)\n")
        ck.violation(bad[:300], ck.write_replay(body), key=dict(kind="tokens", cls=tok_class(toks), what=bad[:30]))
    seen = set()
    for shard, args, kw, msg in ra.counterexamples:
        ch = Chooser(list(shard) + list(args), prefix=())
        i, j = ch.pick(len(TARGS)), ch.pick(len(TARGS))
        src, bad = targ_judge(i, j)
        ck.traces += 1
        if bad is None:
            raise HarnessError(f"template-argument counterexample did not reproduce: {msg}")
        if bad[:40] in seen:
            continue
        seen.add(bad[:40])
        body = ("from vf.props import c02\n" f"src, bad = c02.targ_judge({i}, {j})\nprint(src); print(bad)\nsys.exit(1 if bad else 0)\n")
        cls = "D20" if (bad.startswith("type-id argument") and any(repr(g_) in bad for g_ in GROUPED)) else "other"
        ck.violation(f"{bad}: {src!r}", ck.write_replay(body), key=dict(kind="template-argument", cls=cls, what=bad[:40]))
    for e in ck.known:
        m = e.get("match", {})
        if m.get("cls") == "D20":
            src, bad = targ_judge(0, 4)
            if bad:
                ck.known_hit(e, f"{src!r}: {bad}")
        if m.get("cls") == "D22":
            bad = tok_judge(["(", "(", "x", ")", ")"])
            if bad:
                ck.known_hit(e, bad[:200])
    for vals in ([0, 0, 0, 5, 10], [5, 3, 6, 0, 10], [7, 1, 9, 0, 10]):
        r = tree_replay(vals + [10] * 3, depth)
        ck.sample(dict(context=r[0], tree=r[1], source=r[2], verdict=r[3] or "ok"))
    ck.extra["explanation"] = "CrossHair explores type trees x contexts and all declarator token strings; each is parsed by the real parser and compared with the generator's tree / the reference parser"
    return ck
