"""C18 - parser options change exactly what they document.

Hook contract (E-CH traced, symbolic strings): a recording preprocessor stub; for all file names and contents the stub
is called exactly once with exactly (filename, content) - (filename, None) through parse_file, which then opens
nothing - and parsing proceeds as if the returned text had been supplied.
convert_void_to_zero_params / verbose (E-CH enumerated): CrossHair explores a grammar of declarations with
parameter lists at every nesting level (function, method, constructor, function pointer, typedef, parameter that is
a function pointer, template-argument function type); oracle: result(False) with lone unnamed plain `void` lists
emptied == result(True), the number of kept `void` lists equals the number written, verbose result == default.
"""
import contextlib
import dataclasses
import io
import time
from typing import Optional

from crosshair.tracers import NoTracing

from ..common import Check, HarnessError
from ..chrun import Chooser

TWIN = False
RETURNS = ["int from_hook;\n", "namespace N { void f(void); }\n", ""]


class FakeFile:
    def __init__(self, content):
        self.content = content

    def read(self):
        return self.content

    def __enter__(self):
        return self

    def __exit__(self, *a):
        return False


def h_hook(filename: str, content: str, c0: int, c1: int) -> bool:
    """
    pre: len(filename) <= 4 and len(content) <= 4
    post: _
    """
    from cxxheaderparser import simple, parser as parser_mod
    from cxxheaderparser.options import ParserOptions

    ch = Chooser([c0, c1])
    ret = RETURNS[ch.pick(len(RETURNS))]
    mode = ch.pick(3)  # 0 parse_string, 1 CxxParser directly, 2 parse_file (content None)
    calls = []

    def hook(fn, ct):
        calls.append((fn, ct))
        return ret

    opens = []
    parser_mod.open = lambda *a, **kw: (opens.append(a), FakeFile("int from_file;\n"))[1]
    old_os = simple.os
    from .c20 import FakeOS

    simple.os = FakeOS
    try:
        opts = ParserOptions(preprocessor=hook)
        if mode == 0:
            d = simple.parse_string(content, filename=filename, options=opts)
        elif mode == 1:
            v = simple.SimpleCxxVisitor()
            parser_mod.CxxParser(filename, content, v, opts).parse()
            d = v.data
        else:
            if filename == "-":
                return True  # stdin mode: content is read first, covered by C20
            d = simple.parse_file(filename, options=opts)
    finally:
        del parser_mod.open
        simple.os = old_os
    if TWIN:
        return False
    if len(calls) != 1 or len(opens) != 0:
        return False
    fn, ct = calls[0]
    if fn != filename:
        return False
    if mode == 2:
        if ct is not None:
            return False
    elif ct != content:
        return False
    with NoTracing():
        want = simple.parse_string(ret)
    return d == want


# ---------------------------------------------------------------------------------------------
# void differential
# ---------------------------------------------------------------------------------------------

LISTS = ["void", "", "int", "void*", "void, int", "int, void*", "void (*cb)(void)", "void (*)(int)", "const char*", "..."]
LONE_VOID = {"void": 1, "void (*cb)(void)": 1}  # how many lone-void lists the text itself contains (nested one counted here)
MAXDEPTH = 2
NFORMS = 17


def gen_list(ch, depth):
    """(text, number of lone unnamed void lists written)"""
    k = ch.pick(len(LISTS))
    s = LISTS[k]
    return s, LONE_VOID.get(s, 0)


def gen_decl(ch):
    """one declaration; returns (source, count of lone-void lists)"""
    form = ch.pick(NFORMS)
    a, na = gen_list(ch, 0)
    v, nv = (a, na) if a in ("void", "") else ("void", 1)  # slots where C++ only allows `(void)` or `()`
    if form == 11:
        return f"struct S {{ virtual ~S({v}) = default; }};", nv
    if form == 12:
        return f"S::~S({v}) {{}} T<int>::~T({v}) {{}}", 2 * nv
    if form == 13:
        return f"struct S {{ operator int({v}) const; explicit operator bool({v}); S &operator=({a}); }};", 2 * nv + na
    if form == 14:
        return f"struct S {{ friend void ff({a}); ~S({v}) noexcept {{}} }};", na + nv
    if form == 15:
        return f"extern \"C\" int cf({a}); extern \"C\" {{ void cg({a}); }}", 2 * na
    if form == 16:
        return f"template <> int spec<int>({a}); template <typename T> struct W {{ ~W({v}); W({a}); }};", 2 * na + nv
    if form == 0:
        return f"int f({a});", na
    if form == 1:
        return f"struct S {{ void m({a}) const; }};", na
    if form == 2:
        return f"struct S {{ S({a}); }};", na
    if form == 3:
        return f"void (*fp)({a});", na
    if form == 4:
        return f"typedef void (*fp_t)({a});", na
    if form == 5:
        return f"typedef int fn_t({a});", na
    if form == 6:
        b, nb = gen_list(ch, 1)
        return f"int g(int (*cb)({a}), void (*cb2)({b}));", na + nb
    if form == 7:
        return f"std::function<void({a})> v;", na
    if form == 8:
        b, nb = gen_list(ch, 1)
        return f"struct S {{ virtual int m({a}) = 0; static void (*sfp)({b}); }};", na + nb
    if form == 9:
        return f"template <typename T> T tf({a}) noexcept {{ return T(); }} int after({a});", 2 * na
    b, nb = gen_list(ch, 1)
    return f"namespace N {{ using F = A<int({a}), void({b})>; auto h({a}) -> int; }}", 2 * na + nb


def is_lone_void(params):
    from cxxheaderparser.types import Type, FundamentalSpecifier

    if len(params) != 1:
        return False
    p = params[0]
    t = p.type
    return (isinstance(t, Type) and not t.const and not t.volatile and p.name is None and p.default is None and not p.param_pack
            and len(t.typename.segments) == 1 and isinstance(t.typename.segments[0], FundamentalSpecifier)
            and t.typename.segments[0].name == "void" and t.typename.classkey is None)


def walk_strip(o, counter):
    """copy of a dataclass tree with every lone-void parameter list emptied; counter[0] counts them"""
    if dataclasses.is_dataclass(o) and not isinstance(o, type):
        kw = {}
        for f in dataclasses.fields(o):
            v = getattr(o, f.name)
            if f.name == "parameters" and isinstance(v, list) and is_lone_void(v):
                counter[0] += 1
                kw[f.name] = []
            else:
                kw[f.name] = walk_strip(v, counter)
        return type(o)(**kw)
    if isinstance(o, list):
        return [walk_strip(x, counter) for x in o]
    if isinstance(o, dict):
        return {k: walk_strip(v, counter) for k, v in o.items()}
    return o


def void_judge(src, nvoid):
    from cxxheaderparser.simple import parse_string
    from cxxheaderparser.options import ParserOptions
    from cxxheaderparser.errors import CxxParseError

    try:
        d_true = parse_string(src)
    except CxxParseError as e:
        return f"default options: parse error {e}"
    try:
        d_false = parse_string(src, options=ParserOptions(convert_void_to_zero_params=False))
    except CxxParseError as e:
        return f"convert_void_to_zero_params=False: parse error {e}"
    d_explicit = parse_string(src, options=ParserOptions(convert_void_to_zero_params=True))
    if d_explicit != d_true:
        return "explicit True differs from the default"
    cnt = [0]
    stripped = walk_strip(d_false, cnt)
    if stripped != d_true:
        return "result(False) with lone void lists emptied differs from result(True)"
    if cnt[0] != nvoid:
        return f"{cnt[0]} lone void lists kept with the option disabled, {nvoid} written"
    c2 = [0]
    walk_strip(d_true, c2)
    if c2[0] != 0:
        return "default result still contains a lone void parameter list"
    # verbose: same result, output ignored
    buf = io.StringIO()
    with contextlib.redirect_stdout(buf):
        d_verb = parse_string(src, options=ParserOptions(verbose=True))
    if d_verb != d_true:
        return "verbose=True changes the result"
    # the options are independent: each result is the same with an identity preprocessor hook and / or verbose switched on as well
    ident = lambda filename, content: content  # noqa
    for cv, want in ((False, d_false), (True, d_true)):
        for verbose in (False, True):
            with contextlib.redirect_stdout(io.StringIO()):
                try:
                    got = parse_string(src, options=ParserOptions(verbose=verbose, convert_void_to_zero_params=cv, preprocessor=ident))
                except CxxParseError as e:
                    return f"convert_void_to_zero_params={cv}, verbose={verbose}, identity preprocessor hook: parse error {e}"
            if got != want:
                return f"convert_void_to_zero_params={cv} behaves differently when an identity preprocessor hook is configured (verbose={verbose})"
    return None


def h_void(c0: int, c1: int, c2: int, c3: int, c4: int) -> bool:
    """
    post: _
    """
    with NoTracing():
        ch = Chooser([c0, c1, c2, c3, c4])
        src, n = gen_decl(ch)
        bad = void_judge(src, n)
        if TWIN:
            return False
        return bad is None


def void_replay(vals):
    ch = Chooser(list(vals), prefix=())
    src, n = gen_decl(ch)
    return src, n, void_judge(src, n)


VERB_FORMS = [
    "int f(int a = 1 {t} 2);", "int v = 3 {t} 4;", "template <int N = 5 {t} 6> struct T {{}};", "struct S {{ void m(int q = 7 {t} 8) const; int b = 9 {t} 1; }};",
    "enum E {{ A = 1 {t} 2 }};", "void g(const char *s = \"{t}s {t}d\");", "int arr[1 {t} 2];", "A<(1 {t} 2)> x;", "auto h() -> decltype(1 {t} 2);",
    "void n() noexcept(1 {t} 2);", "#pragma omp {t}\n", "S::S() : a(1 {t} 2) {{}}", "using U = B<1 {t} 2>;", "template <typename T> requires (1 {t} 2) void r();",
]


def verbose_tokens():
    """every single-character operator the lexer defines plus a few multi-character ones (read from the lexer each run)"""
    from cxxheaderparser.lexer import PlyLexer

    toks = [c for c in PlyLexer.literals if c not in "(){}[];,\\'\"<>:?="]
    return toks + ["&&", "||", "<<", "->", "/", "::", "..."]


def verbose_judge(src):
    from cxxheaderparser.simple import parse_string
    from cxxheaderparser.options import ParserOptions
    from cxxheaderparser.errors import CxxParseError

    try:
        d = parse_string(src)
    except CxxParseError:
        d = "error"
    buf = io.StringIO()
    with contextlib.redirect_stdout(buf):
        try:
            dv = parse_string(src, options=ParserOptions(verbose=True))
        except CxxParseError:
            dv = "error"
        except Exception as e:  # noqa
            dv = "error" if d == "error" else f"raised {type(e).__name__}: {e}"
    if d != dv:
        return f"verbose=True changes the outcome: default {('a result' if d != 'error' else 'CxxParseError')}, verbose {dv if isinstance(dv, str) else 'a different result'}"
    return None


def h_verbose(c0: int, c1: int) -> bool:
    """
    post: _
    """
    with NoTracing():
        ch = Chooser([c0, c1])
        toks = verbose_tokens()
        src = VERB_FORMS[ch.pick(len(VERB_FORMS))].format(t=toks[ch.pick(len(toks))])
        bad = verbose_judge(src)
        if TWIN:
            return False
        return bad is None


def verbose_replay(vals):
    ch = Chooser(list(vals), prefix=())
    toks = verbose_tokens()
    src = VERB_FORMS[ch.pick(len(VERB_FORMS))].format(t=toks[ch.pick(len(toks))])
    return src, verbose_judge(src)


def verbose_error_judge(src):
    """invalid input: non-verbose raises CxxParseError, verbose raises too (diagnostics only: never a result)"""
    from cxxheaderparser.simple import parse_string
    from cxxheaderparser.options import ParserOptions
    from cxxheaderparser.errors import CxxParseError

    r1 = r2 = None
    try:
        parse_string(src)
        r1 = "returned"
    except CxxParseError:
        r1 = "CxxParseError"
    buf = io.StringIO()
    with contextlib.redirect_stdout(buf):
        try:
            parse_string(src, options=ParserOptions(verbose=True))
            r2 = "returned"
        except Exception:  # noqa
            r2 = "raised"
    if (r1 == "returned") != (r2 == "returned"):
        return f"non-verbose {r1}, verbose {r2}"
    return None


def run(tier):
    from .. import chrun
    from cxxheaderparser.parser import CxxParser
    from cxxheaderparser import options

    ck = Check("C18", tier)
    ck.encode(CxxParser.__init__, CxxParser._parse_parameters, CxxParser.parse, options.ParserOptions)
    ck.bounds = dict(filename_len=4, content_len=4, hook_returns=len(RETURNS), entry_points=["parse_string", "CxxParser", "parse_file"],
                     param_lists=LISTS, forms=11)
    ck.assume("open() and os.fsdecode are stubbed in the hook harness", "parameter lists `(void x)` and `(const void)` are not generated: the documentation "
              "only speaks of a single void parameter and such lists are not valid C++", "verbose output on stdout is ignored")
    ck.out_of_scope("option objects mutated during a parse", "declaration forms outside the 11 generated ones")
    pool = chrun.make_pool()
    try:
        tw = chrun.run(__name__, "h_hook", [()], timeout=60, globs=dict(TWIN=True), pool=pool)
        chrun.record(ck, tw, "hook contract reachability twin", expect="refuted")
        shards = [(a, b) for a in range(len(RETURNS)) for b in range(3)]
        res = chrun.run(__name__, "h_hook", shards, timeout=(90 if tier == "quick" else 600), pool=pool)
        chrun.record(ck, res, "preprocessor hook: called exactly once with (filename, content) [(filename, None) via parse_file, nothing opened]; result == parse_string(returned)",
                     bound="all filenames and contents <= 4 chars; 3 entry points")
        tw = chrun.run(__name__, "h_void", [(0, 0)], timeout=60, globs=dict(TWIN=True), pool=pool)
        chrun.record(ck, tw, "void differential reachability twin", expect="refuted")
        shards = [(a, b) for a in range(NFORMS) for b in range(len(LISTS))]
        res2 = chrun.run(__name__, "h_void", shards, timeout=(120 if tier == "quick" else 900), pool=pool)
        chrun.record(ck, res2, "convert_void_to_zero_params / verbose differential over generated declarations",
                     bound=f"{NFORMS} forms x {len(LISTS)} parameter lists per slot (up to 2 slots)")
        tw = chrun.run(__name__, "h_verbose", [(0, 0)], timeout=60, globs=dict(TWIN=True), pool=pool)
        chrun.record(ck, tw, "verbose differential reachability twin", expect="refuted")
        res3 = chrun.run(__name__, "h_verbose", [(a,) for a in range(len(VERB_FORMS))], timeout=(120 if tier == "quick" else 600), pool=pool)
        chrun.record(ck, res3, "verbose == default over value-bearing declarations x every operator token", bound=f"{len(VERB_FORMS)} forms x {len(verbose_tokens())} tokens")
    finally:
        pool.shutdown()
    seen3 = set()
    for shard, args, kw, msg in res3.counterexamples:
        src, bad = verbose_replay(list(shard) + list(args))
        ck.traces += 1
        if bad is None:
            raise HarnessError(f"verbose counterexample did not reproduce: {msg} {src!r}")
        if bad[:60] in seen3:
            continue
        seen3.add(bad[:60])
        body = ("from vf.props import c18\n" f"src, bad = c18.verbose_replay({list(shard) + list(args)!r})\nprint(src); print(bad)\nsys.exit(1 if bad else 0)\n")
        ck.violation(f"{bad} for {src!r}", ck.write_replay(body), key=dict(kind="verbose", what=bad[:40]))
    # verbose == default on the repo's own test inputs
    from .. import rx as _rx
    nverb = 0
    for src in _rx.test_corpus_snippets():
        import inspect as _inspect
        src = _inspect.cleandoc(src)
        bad = verbose_judge(src)
        nverb += 1
        ck.traces += 1
        if bad:
            body = ("from vf.props import c18\n" f"bad = c18.verbose_judge({src!r})\nprint(bad)\nsys.exit(1 if bad else 0)\n")
            ck.violation(f"{bad} for test-suite input {src[:60]!r}", ck.write_replay(body), key=dict(kind="verbose", what=bad[:40]))
            break
    ck.sub("verbose == default on the test-suite inputs", "replay", "holds", inputs=nverb)
    for shard, args, kw, msg in res.counterexamples[:1]:
        fn = kw.get("filename", args[0] if args else "a")
        ct = kw.get("content", args[1] if len(args) > 1 else "b")
        body = ("from vf.props import c18\nfrom vf import chrun\n" f"chrun.set_prefix({tuple(shard)!r})\n"
                f"ok = c18.h_hook({fn!r}, {ct!r}, *{list(args[2:])!r})\nprint(ok)\nsys.exit(0 if ok else 1)\n")
        p = ck.write_replay(body)
        ok, out = ck.run_replay(p)
        ck.traces += 1
        if not ok:
            raise HarnessError(f"hook counterexample did not reproduce: {msg}\n{out}")
        ck.violation(f"preprocessor hook contract broken for filename={fn!r} content={ct!r} (entry point {shard})", p, key=dict(kind="hook"))
    seen = set()
    for shard, args, kw, msg in res2.counterexamples:
        src, n, bad = void_replay(list(shard) + list(args))
        ck.traces += 1
        if bad is None:
            raise HarnessError(f"void counterexample did not reproduce: {msg} {src!r}")
        k = bad[:40]
        if k in seen:
            continue
        seen.add(k)
        body = ("from vf.props import c18\n" f"src, n, bad = c18.void_replay({list(shard) + list(args)!r})\nprint(src); print(bad)\nsys.exit(1 if bad else 0)\n")
        ck.violation(f"{bad} for {src!r}", ck.write_replay(body), key=dict(kind="void", what=k))
    # invalid inputs: verbose must not turn a failure into a result (or vice versa)
    bads = ["int x; }", "struct S { namespace N {} };", "int f(;", "class { public: int a; } x, ;", "template <> int", "#define X 1\n", "int a = (1;", "\x01"]
    for src in bads:
        r = verbose_error_judge(src)
        ck.traces += 1
        if r:
            body = ("from vf.props import c18\n" f"r = c18.verbose_error_judge({src!r})\nprint(r)\nsys.exit(1 if r else 0)\n")
            ck.violation(f"verbose mode changes the outcome on {src!r}: {r}", ck.write_replay(body), key=dict(kind="verbose-error"))
    ck.sub("verbose on invalid inputs: failure stays failure", "replay", "holds", inputs=len(bads))
    for vals in ([0, 0], [6, 0, 6], [10, 0, 0], [3, 3]):
        src, n, bad = void_replay(vals + [0] * 5)
        ck.sample(dict(source=src, lone_void_lists=n, verdict=bad or "ok"))
    ck.extra["explanation"] = "CrossHair: hook contract for all strings (traced); void/verbose differentials over an exhaustively explored declaration grammar"
    return ck
