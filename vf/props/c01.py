"""C01 - namespace-scope declarations are extracted faithfully.

Engine E-CH.  CrossHair explores an AST-first declaration grammar: form (variable, function, out-of-class method,
typedef, using x3, enum, forward declaration, namespace alias, template headers, concept, explicit instantiation,
deduction guide, #include / #pragma, ';'), specifier subset, declarator count, initializer kind, parameters (default /
pack / vararg), function tail, enclosing scope (global, namespace, nested name, inline, anonymous, extern block, depth 2)
and an ignored decoration ([[a]], __attribute__, __declspec, alignas, static_assert) before the declaration.
The expected ParsedData is built from the chosen abstract syntax as plain dataclasses - never by consulting the parser -
and compared with parse_string; every object of the result must conform to the published field types.
Sub-mechanism (E-CH traced): ParsedTypeModifiers.validate over all subsets of the three specifier dictionaries.
"""
import dataclasses
import typing

from crosshair.tracers import NoTracing

from ..chrun import Chooser
from ..common import Check, HarnessError

TWIN = False
PAIRS = False
LEVEL = 0  # 0 = quick (reduced variation pools), 1 = thorough (full pools)
DECO_MODE = 0  # 0: no decoration, all scopes; 1: every decoration, global scope


def lim(n, q):
    """size of a variation pool: q in the quick tier, n in the thorough tier"""
    if LEVEL < 0:
        return 1  # pair mode: one representative per variation pool
    return n if LEVEL else min(n, q)



def T_int():
    from cxxheaderparser.types import Type, PQName, FundamentalSpecifier

    return Type(PQName([FundamentalSpecifier("int")]))


def types_pool():
    from cxxheaderparser.types import (Type, PQName, FundamentalSpecifier, NameSpecifier, Pointer, Reference, TemplateSpecialization, TemplateArgument)

    return [
        ("int", lambda: Type(PQName([FundamentalSpecifier("int")]))),
        ("std::tuple<Ts..., int, 3>", lambda: Type(PQName([NameSpecifier("std"), NameSpecifier("tuple", TemplateSpecialization([
            TemplateArgument(Type(PQName([NameSpecifier("Ts")])), param_pack=True), TemplateArgument(Type(PQName([FundamentalSpecifier("int")]))),
            TemplateArgument(val("3"))]))]))),
        ("const unsigned long", lambda: Type(PQName([FundamentalSpecifier("unsigned long")]), const=True)),
        ("ns::T", lambda: Type(PQName([NameSpecifier("ns"), NameSpecifier("T")]))),
        ("std::vector<int>*", lambda: Pointer(Type(PQName([NameSpecifier("std"), NameSpecifier("vector", TemplateSpecialization([TemplateArgument(Type(PQName([FundamentalSpecifier("int")])))]))])))),
        ("const char&", lambda: Reference(Type(PQName([FundamentalSpecifier("char")]), const=True))),
        ("volatile bool", lambda: Type(PQName([FundamentalSpecifier("bool")]), volatile=True)),
    ]


def val(*toks):
    from cxxheaderparser.types import Value, Token

    return Value([Token(t) for t in toks])


def pq(*names):
    from cxxheaderparser.types import PQName, NameSpecifier

    return PQName([NameSpecifier(n) for n in names])


# every form builder: (ch, uid) -> (source text, list of (collection name, object), extra: dict for ParsedData-level lists)


def form_variable(ch, u):
    from cxxheaderparser.types import Variable, Array, Pointer

    tp = types_pool()
    tsrc, tmk = tp[ch.pick(lim(len(tp), 3))]
    spec = ch.pick(6)
    specs = [[], ["static"], ["extern"], ["inline", "constexpr"], ["static", "constexpr"], ["extern", '"C"']][spec]
    flags = dict(static="static" in specs, extern="extern" in specs, inline="inline" in specs, constexpr="constexpr" in specs)
    init = ch.pick(3)
    ndecl = 1 + ch.pick(2)
    if tsrc.endswith("&") and init == 0:
        init = 1
    decls = []
    objs = []
    for k in range(ndecl):
        shape = ch.pick(3) if not tsrc.endswith("&") else 0
        name = f"v{u}_{k}"
        ty = tmk()
        if shape == 1:
            d = f"*{name}"
            ty = Pointer(ty)
        elif shape == 2:
            d = f"{name}[3]"
            ty = Array(ty, val("3"))
        else:
            d = name
        # a declarator of the form `*name` after `T*` etc. is fine; references only plain
        value = None
        if init == 1:
            d += " = 16UL + 0x2ull + 0xDE'AD'BE'EFu + 0b1'01 + 1'000'000"
            value = val("16UL", "+", "0x2ull", "+", "0xDE'AD'BE'EFu", "+", "0b1'01", "+", "1'000'000")
        elif init == 2:
            d += "{1, 2}"
            value = val("{", "1", ",", "2", "}")
        decls.append(d)
        objs.append(("variables", Variable(name=pq(name), type=ty, value=value, **flags)))
    base = tsrc
    if tsrc.endswith("*") or tsrc.endswith("&"):
        # the pointer / reference belongs to the first declarator only in C++: keep one declarator for such base types
        decls, objs = decls[:1], objs[:1]
    src = " ".join(specs) + (" " if specs else "") + base + " " + ", ".join(decls) + ";"
    return src, objs, {}


def params_variant(ch):
    from cxxheaderparser.types import Parameter, Pointer, Type, PQName, FundamentalSpecifier, NameSpecifier

    k = ch.pick(7)
    if k == 0:
        return "", [], False
    if k == 1:
        return "void", [], False
    if k == 2:
        return "int a", [Parameter(T_int(), "a")], False
    if k == 3:
        return "int a = 3, const char *s = \"x\"", [Parameter(T_int(), "a", val("3")), Parameter(Pointer(Type(PQName([FundamentalSpecifier("char")]), const=True)), "s", val('"x"'))], False
    if k == 4:
        return "int, ...", [Parameter(T_int(), None)], True
    if k == 5:
        return "Ts... args", [Parameter(Type(PQName([NameSpecifier("Ts")])), "args", param_pack=True)], False
    return "int (*cb)(int), int arr[]", None, False


def form_function(ch, u):
    from cxxheaderparser.types import Function, Parameter, Pointer, FunctionType, Array, TemplateDecl, TemplateTypeParam, TemplateNonTypeParam

    tp = types_pool()
    tsrc, tmk = tp[ch.pick(lim(len(tp), 2))]
    spec = ch.pick(lim(5, 3))
    specs = [[], ["static"], ["inline"], ["constexpr"], ["extern"]][spec]
    flags = dict(static="static" in specs, extern="extern" in specs, inline="inline" in specs, constexpr="constexpr" in specs)
    psrc, params, vararg = params_variant(ch)
    if params is None:
        params = [Parameter(Pointer(FunctionType(T_int(), [Parameter(T_int(), None)])), "cb"), Parameter(Array(T_int(), None), "arr")]
    tail = ch.pick(9)
    tmpl = ch.pick(4)
    name = f"f{u}"
    kw = {}
    ret = tmk()
    rsrc = tsrc
    tails = ""
    if tail == 1:
        tails, kw["noexcept"] = " noexcept", val()
    elif tail == 2:
        tails, kw["noexcept"] = " noexcept(N > 1)", val("N", ">", "1")
    elif tail == 3:
        tails, kw["throw"] = " throw()", val()
    elif tail == 4:
        rsrc, tails, kw["has_trailing_return"] = "auto", " -> " + tsrc, True
    elif tail == 5:
        tails, kw["has_body"] = " { return x; }", True
    elif tail == 6:
        tails, kw["deleted"] = " = delete", True
    elif tail == 7:  # exception specification and trailing return type together
        rsrc, tails, kw["has_trailing_return"], kw["noexcept"] = "auto", " noexcept -> " + tsrc, True, val()
    elif tail == 8:
        rsrc, tails, kw["has_trailing_return"], kw["throw"] = "auto", " throw() -> " + tsrc, True, val()
    template = None
    tsrc_ = ""
    if tmpl == 1:
        tsrc_, template = "template <typename T> ", TemplateDecl([TemplateTypeParam("typename", "T")])
    elif tmpl == 2:
        tsrc_, template = "template <class T = int, int N = 3, typename... Ts> ", TemplateDecl([
            TemplateTypeParam("class", "T", default=val("int")), TemplateNonTypeParam(type=T_int(), name="N", default=val("3")), TemplateTypeParam("typename", "Ts", param_pack=True)])
    elif tmpl == 3:
        tsrc_, template = "template <> ", TemplateDecl([])
    end = "" if tail == 5 else ";"
    src = tsrc_ + " ".join(specs) + (" " if specs else "") + f"{rsrc} {name}({psrc}){tails}{end}"
    fn = Function(return_type=ret, name=pq(name), parameters=params, vararg=vararg, template=template, **flags, **kw)
    return src, [("functions", fn)], {}


def form_method_impl(ch, u):
    from cxxheaderparser.types import Method, PQName, NameSpecifier, Type, FundamentalSpecifier

    k = ch.pick(7)
    void = Type(PQName([FundamentalSpecifier("void")]))
    if k == 5:
        from cxxheaderparser.types import Parameter

        return (f"lib::O{u}::In::In(int v) {{ }}", [("method_impls", Method(None, pq("lib", f"O{u}", "In", "In"), [Parameter(T_int(), "v")], constructor=True, has_body=True))], {})
    if k == 6:
        return f"lib::O{u}::In::~In() {{ }}", [("method_impls", Method(None, pq("lib", f"O{u}", "In", "~In"), [], destructor=True, has_body=True))], {}
    if k == 4:
        # two template headers as written; the invented parameter of the abbreviated (`auto`) parameter belongs to the innermost one
        from cxxheaderparser.types import (AutoSpecifier, Parameter, Reference, TemplateArgument, TemplateDecl, TemplateNonTypeParam, TemplateSpecialization,
                                           TemplateTypeParam)

        def named(n):
            return Type(PQName([NameSpecifier(n)]))

        name = PQName([NameSpecifier(f"Tb{u}", TemplateSpecialization([TemplateArgument(named("K"))])), NameSpecifier("Row", TemplateSpecialization([TemplateArgument(named("V"))])),
                       NameSpecifier("put")])
        auto_t = lambda: Type(PQName([AutoSpecifier()]))  # noqa
        params = [Parameter(Reference(Type(PQName([NameSpecifier("K")]), const=True)), "key"), Parameter(auto_t(), "value")]
        tmpl = [TemplateDecl([TemplateTypeParam("typename", "K")]), TemplateDecl([TemplateTypeParam("typename", "V"), TemplateNonTypeParam(type=auto_t(), param_idx=1)])]
        return (f"template <typename K> template <typename V> void Tb{u}<K>::Row<V>::put(const K &key, auto value) {{ }}",
                [("method_impls", Method(void, name, params, has_body=True, template=tmpl))], {})
    if k == 0:
        return f"void S{u}::m() const {{ }}", [("method_impls", Method(void, pq(f"S{u}", "m"), [], const=True, has_body=True))], {}
    if k == 1:
        return f"S{u}::S{u}(int a) : x(a) {{ }}", [("method_impls", Method(None, pq(f"S{u}", f"S{u}"), [__import__('cxxheaderparser.types', fromlist=['Parameter']).Parameter(T_int(), "a")], constructor=True, has_body=True))], {}
    if k == 2:
        return f"S{u}::~S{u}() {{ }}", [("method_impls", Method(None, pq(f"S{u}", f"~S{u}"), [], destructor=True, has_body=True))], {}
    return f"int ns::S{u}::get() noexcept {{ return 1; }}", [("method_impls", Method(T_int(), pq("ns", f"S{u}", "get"), [], noexcept=val(), has_body=True))], {}


def form_typedef(ch, u):
    from cxxheaderparser.types import Typedef, Pointer, FunctionType, Parameter, Array

    k = ch.pick(7)
    if k == 5:
        from cxxheaderparser.types import Type, PQName, FundamentalSpecifier

        cc = Pointer(Type(PQName([FundamentalSpecifier("char")]), const=True))
        return f"typedef int pr{u}(const char *fmt, ...);", [("typedefs", Typedef(FunctionType(T_int(), [Parameter(cc, "fmt")], vararg=True), f"pr{u}"))], {}
    if k == 6:
        from cxxheaderparser.types import Type, PQName, FundamentalSpecifier

        cc = Pointer(Type(PQName([FundamentalSpecifier("char")]), const=True))
        return f"typedef int (*prp{u})(const char *fmt, ...);", [("typedefs", Typedef(Pointer(FunctionType(T_int(), [Parameter(cc, "fmt")], vararg=True)), f"prp{u}"))], {}
    if k == 0:
        return f"typedef int T{u};", [("typedefs", Typedef(T_int(), f"T{u}"))], {}
    if k == 1:
        return f"typedef int T{u}, *PT{u};", [("typedefs", Typedef(T_int(), f"T{u}")), ("typedefs", Typedef(Pointer(T_int()), f"PT{u}"))], {}
    if k == 2:
        return f"typedef int (*fp{u})(int a);", [("typedefs", Typedef(Pointer(FunctionType(T_int(), [Parameter(T_int(), "a")])), f"fp{u}"))], {}
    if k == 3:
        return f"typedef int fn{u}(int);", [("typedefs", Typedef(FunctionType(T_int(), [Parameter(T_int(), None)]), f"fn{u}"))], {}
    return f"typedef int A{u}[3];", [("typedefs", Typedef(Array(T_int(), val("3")), f"A{u}"))], {}


def form_using(ch, u):
    from cxxheaderparser.types import UsingDecl, UsingAlias, TemplateDecl, TemplateTypeParam, Pointer, Type, PQName, NameSpecifier
    from cxxheaderparser.simple import UsingNamespace

    k = ch.pick(6)
    if k == 0:
        return f"using namespace n{u}::m;", [("using_ns", UsingNamespace(f"n{u}::m"))], {}
    if k == 1:
        return f"using namespace ::n{u};", [("using_ns", UsingNamespace(f"::n{u}"))], {}
    if k == 2:
        return f"using n{u}::thing;", [("using", UsingDecl(pq(f"n{u}", "thing")))], {}
    if k == 3:
        return f"using ::g{u};", [("using", UsingDecl(pq("", f"g{u}")))], {}
    if k == 4:
        return f"using U{u} = int;", [("using_alias", UsingAlias(f"U{u}", T_int()))], {}
    return f"template <typename T> using P{u} = T*;", [("using_alias", UsingAlias(f"P{u}", Pointer(Type(PQName([NameSpecifier("T")]))), TemplateDecl([TemplateTypeParam("typename", "T")])))], {}


def form_enum(ch, u):
    from cxxheaderparser.types import EnumDecl, Enumerator, PQName, NameSpecifier, FundamentalSpecifier, ForwardDecl

    k = ch.pick(5)
    if k == 0:
        return f"enum E{u} {{ A{u}, B{u} = 2 }};", [("enums", EnumDecl(PQName([NameSpecifier(f"E{u}")], "enum"), [Enumerator(f"A{u}"), Enumerator(f"B{u}", val("2"))]))], {}
    if k == 1:
        return f"enum class E{u} : unsigned char {{ A, B, }};", [("enums", EnumDecl(PQName([NameSpecifier(f"E{u}")], "enum class"), [Enumerator("A"), Enumerator("B")], PQName([FundamentalSpecifier("unsigned char")])))], {}
    if k == 2:
        return f"enum struct E{u} {{ }};", [("enums", EnumDecl(PQName([NameSpecifier(f"E{u}")], "enum struct"), []))], {}
    if k == 3:
        return f"enum class F{u} : int;", [("forward_decls", ForwardDecl(PQName([NameSpecifier(f"F{u}")], "enum class"), enum_base=PQName([FundamentalSpecifier("int")])))], {}
    return f"enum class G{u};", [("forward_decls", ForwardDecl(PQName([NameSpecifier(f"G{u}")], "enum class")))], {}


def form_fwd(ch, u):
    from cxxheaderparser.types import ForwardDecl, PQName, NameSpecifier, TemplateDecl, TemplateTypeParam

    k = ch.pick(4)
    key = ["class", "struct", "union"][k % 3]
    if k < 3:
        return f"{key} Fw{u};", [("forward_decls", ForwardDecl(PQName([NameSpecifier(f"Fw{u}")], key)))], {}
    return f"template <typename T> class Tw{u};", [("forward_decls", ForwardDecl(PQName([NameSpecifier(f"Tw{u}")], "class"), TemplateDecl([TemplateTypeParam("typename", "T")])))], {}


def form_misc(ch, u):
    from cxxheaderparser.types import (NamespaceAlias, Concept, TemplateDecl, TemplateTypeParam, TemplateInst, PQName, NameSpecifier, TemplateSpecialization,
                                       TemplateArgument, DeductionGuide, Parameter, Type)
    from cxxheaderparser.simple import Include, Pragma

    k = ch.pick(9)
    if k == 0:
        return f"namespace al{u} = a::b;", [("ns_alias", NamespaceAlias(f"al{u}", ["a", "b"]))], {}
    if k == 1:
        return f"namespace al{u} = ::a;", [("ns_alias", NamespaceAlias(f"al{u}", ["::", "a"]))], {}
    if k == 2:
        return f"template <typename T> concept Cc{u} = true;", [("concepts", Concept(TemplateDecl([TemplateTypeParam("typename", "T")]), f"Cc{u}", val("true")))], {}
    inst = PQName([NameSpecifier(f"X{u}", TemplateSpecialization([TemplateArgument(T_int())]))])
    if k == 3:
        return f"template class X{u}<int>;", [("template_insts", TemplateInst(PQName(inst.segments), False))], {}
    if k == 4:
        return f"extern template struct X{u}<int>;", [("template_insts", TemplateInst(PQName(inst.segments), True))], {}
    if k == 5:
        g = DeductionGuide(Type(inst), pq(f"X{u}"), [Parameter(T_int(), None)])
        return f"X{u}(int) -> X{u}<int>;", [("deduction_guides", g)], {}
    if k == 6:
        return f"#include <h{u}.h>\n", [], {"includes": [Include(f"<h{u}.h>")]}
    if k == 7:
        return f"#pragma pack(push, {u})\n", [], {"pragmas": [Pragma(val("pack", "(", "push", ",", str(u), ")"))]}
    return ";", [], {}


FORMS = [form_variable, form_function, form_method_impl, form_typedef, form_using, form_enum, form_fwd, form_misc]
DECOS = ["", "[[deprecated]] ", "__attribute__((unused)) ", "__declspec(dllexport) ", "alignas(8) ", "static_assert(sizeof(int) > 1, \"m\"); ", "[[a]] [[b(1, 2)]] "]
SCOPES = [
    ("global", [], "{X}"),
    ("namespace", [("N", False)], "namespace N {{\n{X}\n}}"),
    ("nested-name", [("a", False), ("b", False)], "namespace a::b {{\n{X}\n}}"),
    ("inline", [("I", True)], "inline namespace I {{\n{X}\n}}"),
    ("anonymous", [("", False)], "namespace {{\n{X}\n}}"),
    ("extern-block", [], "extern \"C\" {{\n{X}\n}}"),
    ("depth2", [("o", False), ("i", False)], "namespace o {{ extern \"C++\" {{ namespace i {{\n{X}\n}} }} }}"),
    # a nested-name definition whose leading component already exists (re-entered through the nested-name syntax)
    ("anonymous-in-namespace", [("N", False), ("", False)], "namespace N {{ int pre2; namespace {{\n{X}\n}} }}\nnamespace {{ int glob; }}"),
    ("reopened-prefix", [("a", False), ("b", False)], "namespace a {{ int pre; }}\nnamespace a::b {{\n{X}\n}}"),
]


def deco_ok(form, deco, src):
    """decorations are written before a declaration; not before directives / ';' and not where C++ forbids them"""
    if src.startswith("#") or src == ";":
        return deco == ""
    if form in (form_using, form_misc) and deco.startswith(("alignas", "__declspec", "__attribute__", "[[")):
        return False
    if form in (form_enum, form_fwd, form_typedef, form_method_impl) and deco.startswith(("alignas", "__declspec")):
        return False
    if src.startswith("template") and not deco.startswith("static_assert") and deco:
        return False
    if src.startswith(("extern", "inline", "static", "constexpr")) and deco.startswith("alignas"):
        return False
    return True


class _First:
    """chooser that always takes the first option: the representative of a form"""

    def pick(self, n):
        return 0

    def flag(self):
        return False

    def choose(self, seq):
        return seq[0]


def build_one(ch, u, rep=False):
    form = FORMS[ch.pick(len(FORMS))]
    if DECO_MODE == 0:
        deco = ""
    else:
        deco = DECOS[ch.pick(len(DECOS))]
    src, objs, extra = form(_First() if rep else ch, u)
    if not deco_ok(form, deco, src):
        return None
    return deco + src, objs, extra


def build_program(ch):
    from cxxheaderparser.simple import ParsedData, NamespaceScope

    if DECO_MODE == 0:
        scope = SCOPES[ch.pick(len(SCOPES))]
    else:
        scope = SCOPES[0]
        ch.pick(len(SCOPES))  # keep the choice positions aligned (value ignored)
    # pairs: one side ranges over every variation, the other over one representative per form, in both orders
    order = ch.pick(2) if PAIRS else 0
    one = build_one(ch, 1, rep=(PAIRS and order == 1))
    if one is None:
        return None
    items = [one]
    if PAIRS:
        two = build_one(ch, 2, rep=(order == 0))
        if two is None:
            return None
        items.append(two)
    src = scope[2].format(X="\n".join(i[0] for i in items))
    data = ParsedData()
    ns = data.namespace
    for name, inline in scope[1]:
        nxt = ns.namespaces.get(name)
        if nxt is None:
            nxt = NamespaceScope(name)
            ns.namespaces[name] = nxt
        ns = nxt
        ns.inline = inline
    if scope[1]:
        # inline is set on the innermost namespace of a nested-name definition only
        pass
    if scope[0] == "reopened-prefix":
        from cxxheaderparser.types import Variable

        data.namespace.namespaces["a"].variables.append(Variable(name=pq("pre"), type=T_int()))
    if scope[0] == "anonymous-in-namespace":
        # the unnamed namespace inside N and the one at file scope are different scopes
        from cxxheaderparser.types import Variable

        data.namespace.namespaces["N"].variables.append(Variable(name=pq("pre2"), type=T_int()))
        g = NamespaceScope("")
        g.variables.append(Variable(name=pq("glob"), type=T_int()))
        data.namespace.namespaces[""] = g
    for _, objs, extra in items:
        for coll, obj in objs:
            getattr(ns, coll).append(obj)
        for k, v in extra.items():
            getattr(data, k).extend(v)
    return src, data


# ---------------------------------------------------------------------------------------------
# type conformance walker
# ---------------------------------------------------------------------------------------------


def conforms(value, hint, path="result"):
    """None or description: `value` does not conform to typing hint `hint`"""
    origin = typing.get_origin(hint)
    if hint is typing.Any:
        return None
    if origin is typing.Union:
        errs = []
        for a in typing.get_args(hint):
            e = conforms(value, a, path)
            if e is None:
                return None
            errs.append(e)
        return f"{path}: {type(value).__name__} matches no alternative of {hint}"
    if origin in (list, typing.List):
        if not isinstance(value, list):
            return f"{path}: {type(value).__name__} is not a list"
        (a,) = typing.get_args(hint) or (typing.Any,)
        for i, x in enumerate(value):
            e = conforms(x, a, f"{path}[{i}]")
            if e:
                return e
        return None
    if origin in (dict, typing.Dict):
        if not isinstance(value, dict):
            return f"{path}: not a dict"
        ka, va = typing.get_args(hint) or (typing.Any, typing.Any)
        for k, x in value.items():
            e = conforms(k, ka, f"{path} key") or conforms(x, va, f"{path}[{k!r}]")
            if e:
                return e
        return None
    if origin is typing.Literal:
        return None if value in typing.get_args(hint) else f"{path}: {value!r} not in {hint}"
    if isinstance(hint, typing.ForwardRef) or isinstance(hint, str):
        return None
    if hint is type(None):
        return None if value is None else f"{path}: {type(value).__name__} is not None"
    if isinstance(hint, type):
        if hint is bool and not isinstance(value, bool):
            return f"{path}: {value!r} is not a bool"
        if not isinstance(value, hint):
            return f"{path}: {type(value).__name__} is not a {hint.__name__}"
        if dataclasses.is_dataclass(value):
            try:
                hints = typing.get_type_hints(type(value), vars(__import__("cxxheaderparser.types", fromlist=["x"])) | vars(__import__("cxxheaderparser.simple", fromlist=["x"])))
            except Exception:  # noqa
                return None
            for f in dataclasses.fields(value):
                e = conforms(getattr(value, f.name), hints.get(f.name, typing.Any), f"{path}.{f.name}")
                if e:
                    return e
        return None
    return None


def judge(src, want):
    from cxxheaderparser.simple import parse_string, ParsedData
    from cxxheaderparser.errors import CxxParseError

    try:
        got = parse_string(src)
    except CxxParseError as e:
        return f"parse error: {e}"
    if got != want:
        return "result differs from the expected ParsedData: " + first_diff(got, want)
    e = conforms(got, ParsedData)
    if e:
        return "published field types violated: " + e
    return None


def first_diff(a, b, path="data"):
    if type(a) is not type(b):
        return f"{path}: {type(a).__name__} vs {type(b).__name__}"
    if dataclasses.is_dataclass(a):
        for f in dataclasses.fields(a):
            if not f.compare:
                continue
            x, y = getattr(a, f.name), getattr(b, f.name)
            if x != y:
                return first_diff(x, y, f"{path}.{f.name}")
        return f"{path}: (equal?)"
    if isinstance(a, list):
        if len(a) != len(b):
            return f"{path}: {len(a)} entries, expected {len(b)}: got {a!r:.200}"
        for i, (x, y) in enumerate(zip(a, b)):
            if x != y:
                return first_diff(x, y, f"{path}[{i}]")
    if isinstance(a, dict):
        if a.keys() != b.keys():
            return f"{path}: keys {list(a)} expected {list(b)}"
        for k in a:
            if a[k] != b[k]:
                return first_diff(a[k], b[k], f"{path}[{k!r}]")
    return f"{path}: got {a!r:.160} expected {b!r:.160}"


def h_decl(c0: int, c1: int, c2: int, c3: int, c4: int, c5: int, c6: int, c7: int, c8: int, c9: int, c10: int, c11: int, c12: int, c13: int) -> bool:
    """
    post: _
    """
    with NoTracing():
        ch = Chooser([c0, c1, c2, c3, c4, c5, c6, c7, c8, c9, c10, c11, c12, c13])
        prog = build_program(ch)
        if prog is None:
            return True
        if TWIN:
            return False
        return judge(*prog) is None


def decl_replay(vals, pairs):
    global PAIRS
    old = PAIRS
    PAIRS = pairs
    try:
        ch = Chooser(list(vals), prefix=())
        prog = build_program(ch)
    finally:
        PAIRS = old
    if prog is None:
        return None, None
    return prog[0], judge(*prog)


# ---------------------------------------------------------------------------------------------
# ParsedTypeModifiers.validate with symbolic subsets
# ---------------------------------------------------------------------------------------------


class _Tok:
    def __init__(self, v):
        self.value = v


def h_validate(v_mut: bool, b_const: bool, b_static: bool, b_extern: bool, m_virtual: bool, m_explicit: bool, var_ok: bool, meth_ok: bool) -> bool:
    """
    post: _
    """
    from cxxheaderparser.parserstate import ParsedTypeModifiers
    from cxxheaderparser.errors import CxxParseError

    vars_, both, meths = {}, {}, {}
    if v_mut:
        vars_["mutable"] = _Tok("mutable")
    if b_const:
        both["constexpr"] = _Tok("constexpr")
    if b_static:
        both["static"] = _Tok("static")
    if b_extern:
        both["extern"] = _Tok("extern")
    if m_virtual:
        meths["virtual"] = _Tok("virtual")
    if m_explicit:
        meths["explicit"] = _Tok("explicit")
    mods = ParsedTypeModifiers(vars_, both, meths)
    must_raise = (v_mut and not var_ok) or ((m_virtual or m_explicit) and not meth_ok) or ((b_const or b_static or b_extern) and not var_ok and not meth_ok)
    try:
        mods.validate(var_ok=var_ok, meth_ok=meth_ok, msg="m")
    except CxxParseError:
        if TWIN:
            return False
        return must_raise
    if TWIN:
        return False
    return not must_raise


def run(tier):
    from .. import chrun
    from cxxheaderparser.parser import CxxParser
    from cxxheaderparser.parserstate import ParsedTypeModifiers
    from cxxheaderparser import simple

    ck = Check("C01", tier)
    ck.encode(CxxParser.parse, CxxParser._parse_declarations, CxxParser._parse_decl, CxxParser._parse_type, CxxParser._parse_function, CxxParser._parse_fn_end,
              CxxParser._parse_parameters, CxxParser._parse_parameter, CxxParser._parse_field, CxxParser._parse_enum_decl, CxxParser._parse_enumerator_list, CxxParser._parse_using,
              CxxParser._parse_namespace, CxxParser._parse_extern, CxxParser._parse_template, CxxParser._parse_template_decl, CxxParser._parse_concept,
              CxxParser._parse_template_instantiation, ParsedTypeModifiers.validate, simple.SimpleCxxVisitor)
    ck.bounds = dict(forms=[f.__name__ for f in FORMS], decorations=DECOS, scopes=[s[0] for s in SCOPES], programs="one declaration (quick) / one declaration and ordered pairs (thorough)")
    ck.assume("the expected ParsedData is built from the generator's abstract syntax as plain dataclasses", "identifier spelling is fixed (distinct names)",
              "decorations are only written where C++ allows that attribute form before the declaration")
    ck.out_of_scope("programs beyond two declarations or scope depth 2", "expressions inside values (C14)", "declarators beyond depth 1 (C02)")
    pool = chrun.make_pool()
    try:
        tw = chrun.run(__name__, "h_validate", [()], timeout=60, globs=dict(TWIN=True), pool=pool)
        chrun.record(ck, tw, "ParsedTypeModifiers.validate reachability twin", expect="refuted")
        rv = chrun.run(__name__, "h_validate", [()], timeout=120, pool=pool)
        chrun.record(ck, rv, "ParsedTypeModifiers.validate: raises exactly when a specifier is not allowed (all 2^8 subset / flag combinations, symbolic booleans)", bound="all combinations")
        tw = chrun.run(__name__, "h_decl", [(0, 0)], timeout=60, globs=dict(TWIN=True), pool=pool)
        chrun.record(ck, tw, "declaration grammar reachability twin", expect="refuted")
        lv = 0 if tier == "quick" else 1
        shards = [(a, b) for a in range(len(SCOPES)) for b in range(len(FORMS))]
        r1 = chrun.run(__name__, "h_decl", shards, timeout=(250 if tier == "quick" else 1800), globs=dict(LEVEL=lv, DECO_MODE=0), pool=pool)
        chrun.record(ck, r1, "every single declaration of the grammar in every scope: result == expected ParsedData, field types conform",
                     bound=f"{len(FORMS)} forms x variations x {len(SCOPES)} scopes")
        shards = [(0, b, d) for b in range(len(FORMS)) for d in range(len(DECOS))]
        r1b = chrun.run(__name__, "h_decl", shards, timeout=(250 if tier == "quick" else 1800), globs=dict(LEVEL=lv, DECO_MODE=1), pool=pool)
        chrun.record(ck, r1b, "every single declaration with every ignored decoration before it (global scope)", bound=f"{len(FORMS)} forms x variations x {len(DECOS)} decorations")
        r2 = None
        if tier == "thorough":
            pair_scopes = list(range(len(SCOPES)))
            shards = [(a, o, b) for a in pair_scopes for o in (0, 1) for b in range(len(FORMS))]
            r2 = chrun.run(__name__, "h_decl", shards, timeout=1500, globs=dict(PAIRS=True, LEVEL=-1, DECO_MODE=0), pool=pool)
            chrun.record(ck, r2, "ordered pairs of declarations", bound="all ordered pairs of single declarations with one representative per variation pool, next to the first variation of every form, in both orders and every scope (all pairs of full variations were on course for hours; sibling independence in general is C12)")
    finally:
        pool.shutdown()
    for shard, args, kw, msg in rv.counterexamples[:1]:
        body = ("from vf.props import c01\n" f"ok = c01.h_validate(*{list(args)!r}, **{kw!r})\nprint(ok)\nsys.exit(0 if ok else 1)\n")
        p = ck.write_replay(body)
        ok, out = ck.run_replay(p)
        if not ok:
            raise HarnessError(f"validate counterexample did not reproduce: {msg}")
        ck.violation(f"ParsedTypeModifiers.validate accepts / rejects the wrong specifier combination ({msg[:120]})", p, key=dict(kind="validate"))
    seen = set()
    for pairs, r, dm in ((False, r1, 0), (False, r1b, 1), (True, r2, 0)):
        if r is None:
            continue
        globals().update(LEVEL=(-1 if pairs else 0 if tier == "quick" else 1), DECO_MODE=dm)
        for shard, args, kw, msg in r.counterexamples:
            src, bad = decl_replay(list(shard) + list(args), pairs)
            ck.traces += 1
            if bad is None:
                raise HarnessError(f"declaration counterexample did not reproduce: {msg}\n{src}")
            sig = bad[:60]
            if sig in seen or len(seen) > 14:
                continue
            seen.add(sig)
            body = ("from vf.props import c01\n" f"c01.LEVEL, c01.DECO_MODE = {LEVEL}, {dm}\nsrc, bad = c01.decl_replay({list(shard) + list(args)!r}, {pairs!r})\nprint(src); print(bad)\nsys.exit(1 if bad else 0)\n")
            ck.violation(f"{bad}\n  source: {src!r}", ck.write_replay(body), key=dict(kind="decl", what=sig))
    globals().update(LEVEL=1, DECO_MODE=0)
    for vals in ([1, 0, 0, 3, 2, 1, 1, 0], [2, 1, 3, 2, 3, 4, 2, 0], [5, 5, 1, 0], [6, 7, 2, 0]):
        src, bad = decl_replay(vals + [0] * 8, False)
        if src:
            ck.sample(dict(source=src, verdict=bad or "ok"))
    ck.extra["explanation"] = "CrossHair explores the declaration grammar; each program is parsed by the real parser and compared with the independently built ParsedData"
    return ck
