"""C09 - layout between tokens never changes the result.

Layer L (E-RX): z3 chooses two stream tokens a, b (symbolic code points, classes chosen by the solver) and for every
layout string of the alphabet asks whether lex(a + layout + b) can be anything but: a unchanged, then only
discardable tokens (whitespace, newline, comments, backslash-newline), then b unchanged.
Layers S + P (E-CH): for every program of a pool, every token gap and every layout string, CrossHair explores
(program, gap, layout[, second gap]); parse_string of the re-laid-out text must equal the baseline result
(ParsedData carries no line numbers).  Gaps are computed from the real lexer's token offsets.
#include / #pragma lines: a comment before the line end changes nothing (D9 / D10 are the current failures).
"""
import time

import z3
from crosshair.tracers import NoTracing

from .. import rx
from ..chrun import Chooser
from ..common import Check, HarnessError

TWIN = False

LAYOUTS = [" ", "\t", "\n", "\r\n", "  \t ", "\n\n", " /* c */ ", " // c\n", " \\\n ", "\\\n", " /* a\n b */ ", "\r\n\r\n", " \\\r\n", " /* x **/ ",
           "\n// c1\n// c2\n", " /* / */ ", " //\n", "\n\\\n", " /* see **note** x */ "]
L_LAYOUTS = [" ", "\t", "\n", "\r\n", " /*x*/ ", " //x\n", " \\\n ", "\n\n", " /*\n*/ ", " /***/ "]


def programs():
    from .c12 import POOL, CLASS_POOL

    out = []
    for t, _ in POOL:
        s = t.format(i=1)
        if s.startswith("///") or "#" in s:
            continue
        out.append(s)
    members = " ".join(t.format(i=2) for t, _ in CLASS_POOL if not t.startswith("///") and ":" != t[-1:])
    out.append("struct K : public B, virtual C<int> { " + members + " };")
    out += [
        "template <typename T, int N = 3, template <class> class U = V> class A final : B<T>::template C<N> { public: A() : x(1), y{2} {} private: T x, y; };",
        "void f(int (*cb)(void), const char *s = \"a b\", char c = ' ', ...) noexcept(true);",
        "enum class E : unsigned long { A = 1 << 3, B [[deprecated]] = A | 2, C };",
        "namespace a::b { extern \"C\" { typedef struct { int x : 3; } S; } using T = S; }",
        "auto g(int x) -> decltype(x + 1) { return x + 1; } static_assert(sizeof(int) >= 2, \"m\");",
        "struct S { operator bool() const; S &operator=(const S &) = default; bool operator<(const S &o) const; friend S operator+(S a, S b) { return a; } };",
        "template <> struct H<int> { using type = int; }; template class H<long>; extern template class H<char>;",
        "template <typename T> requires C<T> && D<T> void r(T) requires E<T>;",
        "long long unsigned int v = 0x1'fULL + 1.5e3f; const volatile int *const *p; int (&ra)[3] = arr; void (*sig(int))(int);",
        "class D : protected virtual ns::Base<int, 3>, public Other... { using Base::Base; virtual ~D() noexcept override = 0; };",
        "struct Q { Q(const Q &) = delete; void m() = delete; }; void fd() = delete;",
        "void (__stdcall *fp)(int); int __cdecl g2(); typedef void (__stdcall *cb_t)(void); void take(int (__cdecl *cmp)(int));",
        "struct AQ { auto m() const -> int; }; auto fq() -> int; auto vq = 1;",
    ]
    return out


def token_gaps(src):
    """character offsets where layout may be inserted: the start of every real token except the first"""
    from cxxheaderparser.lexer import PlyLexer

    lx = PlyLexer("g")
    lx.input(src)
    offs = []
    while True:
        t = lx.token()
        if t is None:
            break
        if t.type in ("WHITESPACE", "NEWLINE", "COMMENT_SINGLELINE", "COMMENT_MULTILINE"):
            continue
        offs.append(t.lexpos)
    return offs[1:]


_PROGS = None
_BASE = {}


def prog_cache():
    global _PROGS
    if _PROGS is None:
        _PROGS = programs()
    return _PROGS


def relayout_judge(pi, gaps, layouts):
    from cxxheaderparser.simple import parse_string
    from cxxheaderparser.errors import CxxParseError

    src = prog_cache()[pi]
    if pi not in _BASE:
        _BASE[pi] = (parse_string(src), token_gaps(src))
    base, offs = _BASE[pi]
    if not offs:
        return src, None
    ins = sorted(((offs[g % len(offs)], l) for g, l in zip(gaps, layouts)), reverse=True)
    text = src
    for o, l in ins:
        text = text[:o] + l + text[o:]
    try:
        got = parse_string(text)
    except CxxParseError as e:
        return text, f"parse error: {e}"
    return text, (None if got == base else "result differs from the baseline layout")


def h_relayout(c0: int, c1: int, c2: int, c3: int, c4: int) -> bool:
    """
    post: _
    """
    with NoTracing():
        ch = Chooser([c0, c1, c2, c3, c4])
        progs = prog_cache()
        pi = ch.pick(len(progs))
        src = progs[pi]
        if pi not in _BASE:
            from cxxheaderparser.simple import parse_string

            _BASE[pi] = (parse_string(src), token_gaps(src))
        ngaps = len(_BASE[pi][1])
        l1 = LAYOUTS[ch.pick(len(LAYOUTS))]
        g1 = ch.pick(ngaps)
        gaps, lays = [g1], [l1]
        if TWO_GAPS:
            g2 = g1 + 1 + ch.pick(GAP_SPAN)  # the second gap lies within the next GAP_SPAN gaps (look-ahead / push-back sequences are local)
            if g2 >= ngaps:
                return True
            gaps.append(g2)
            lays.append(LAYOUTS2[ch.pick(len(LAYOUTS2))])
        if TWIN:
            return False
        text, bad = relayout_judge(pi, gaps, lays)
        return bad is None


TWO_GAPS = False
GAP_SPAN = 3
LAYOUTS2 = ["\n", " /* c */ ", " // c\n", " \\\n "]


def relayout_replay(vals, two):
    ch = Chooser(list(vals), prefix=())
    progs = prog_cache()
    pi = ch.pick(len(progs))
    relayout_judge(pi, [0], [" "])
    ngaps = len(_BASE[pi][1])
    l1 = LAYOUTS[ch.pick(len(LAYOUTS))]
    gaps, lays = [ch.pick(ngaps)], [l1]
    if two:
        g2 = gaps[0] + 1 + ch.pick(GAP_SPAN)
        if g2 >= ngaps:
            return progs[pi], None, None
        gaps.append(g2)
        lays.append(LAYOUTS2[ch.pick(len(LAYOUTS2))])
    text, bad = relayout_judge(pi, gaps, lays)
    return progs[pi], text, bad


# ---------------------------------------------------------------------------------------------
# directive lines
# ---------------------------------------------------------------------------------------------

DIRECTIVES = [
    ("include-angle", "#include <a/b.h>{c}\nint after;\n", lambda d: [i.filename for i in d.includes], ["<a/b.h>"]),
    ("include-quote", "#include \"a b.h\"{c}\nint after;\n", lambda d: [i.filename for i in d.includes], ['"a b.h"']),
    ("include-tab", "#include\t<a/b.h>{c}\nint after;\n", lambda d: [i.filename for i in d.includes], ["<a/b.h>"]),
    ("include-space-tab", "#include \t <a/b.h>{c}\nint after;\n", lambda d: [i.filename for i in d.includes], ["<a/b.h>"]),
    ("include-hash-tab", "#\tinclude  \t\"a b.h\"{c}\nint after;\n", lambda d: [i.filename for i in d.includes], ['"a b.h"']),
    ("pragma-tab", "#pragma\tpack(push, 1){c}\nint after;\n", lambda d: [[t.value for t in p.content.tokens] for p in d.pragmas], [["pack", "(", "push", ",", "1", ")"]]),
    ("pragma-once", "#pragma once{c}\nint after;\n", lambda d: [[t.value for t in p.content.tokens] for p in d.pragmas], [["once"]]),
    ("pragma-args", "#pragma pack(push, 1){c}\nint after;\n", lambda d: [[t.value for t in p.content.tokens] for p in d.pragmas], [["pack", "(", "push", ",", "1", ")"]]),
    ("hash-space-pragma", "#  pragma once{c}\nint after;\n", lambda d: [[t.value for t in p.content.tokens] for p in d.pragmas], [["once"]]),
    ("pragma-comment-inside", "#pragma omp /* w */ parallel /**/for{c}\nint after;\n", lambda d: [[t.value for t in p.content.tokens] for p in d.pragmas], [["omp", "parallel", "for"]]),
    ("decl-then-pragma", "struct PS {{ int a0;{c}\n#pragma pack(push, 1)\nint b0; }};\nint after;\n", lambda d: [[t.value for t in p.content.tokens] for p in d.pragmas], [["pack", "(", "push", ",", "1", ")"]]),
    ("enumerator-then-include", "enum EQ {{ A0,{c}\nB0 }};\n#include <q.h>\nint after;\n", lambda d: [i.filename for i in d.includes], ["<q.h>"]),
    ("pragma-continued", "#pragma omp \\\n parallel{c}\nint after;\n", lambda d: [[t.value for t in p.content.tokens] for p in d.pragmas], [["omp", "parallel"]]),
]
DIR_COMMENTS = ["", " ", " // c", " /* c */", "/* c */", "\t// c", " /* c */ ", "\r"]


LAST_SHAPE = None
NEXT_LINE_TOKENS = ["int", "after", ";"]


def directive_judge(di, ci):
    from cxxheaderparser.simple import parse_string
    from cxxheaderparser.errors import CxxParseError

    name, tmpl, extract, want = DIRECTIVES[di]
    src = tmpl.format(c=DIR_COMMENTS[ci])
    try:
        d = parse_string(src)
    except CxxParseError as e:
        return src, f"parse error: {e}"
    got = extract(d)
    if got != want:
        global LAST_SHAPE
        cm = DIR_COMMENTS[ci].strip()
        if got and isinstance(got[0], list) and got == [want[0] + NEXT_LINE_TOKENS]:
            LAST_SHAPE = "swallows-next-line"  # D9: the comment token took the newline that ends the #pragma
        elif got and isinstance(got[0], str) and cm and got == [want[0] + DIR_COMMENTS[ci].rstrip()]:
            LAST_SHAPE = "keeps-comment"  # D10: the include rule captures the rest of the line
        else:
            LAST_SHAPE = "other"
        return src, f"directive content {got}, expected {want}"
    names = [v.name.segments[-1].name for v in d.namespace.variables]
    if names != ["after"]:
        return src, f"declaration after the directive line lost or changed: variables {names}"
    return src, None


# ---------------------------------------------------------------------------------------------
# layer L with E-RX
# ---------------------------------------------------------------------------------------------


def layer_l(ck, tier):
    from .c16 import classify_rules, Pieces, DISCARD_TYPES, DIRECTIVE_TYPES
    from cxxheaderparser.lexer import PlyLexer, LexerTokenStream

    model = rx.LexModel()
    kinds = classify_rules(model, ck)
    ttype = {nm: model.type_of(nm) for nm, _, _ in model.rules}
    allowed = [nm for nm, (k, _) in kinds.items() if k == "token" and ttype[nm] not in DISCARD_TYPES | DIRECTIVE_TYPES]
    udl_rules = [nm for nm in allowed if ttype[nm] in set(LexerTokenStream._user_defined_literal_start)]
    name_rule = next(nm for nm in allowed if ttype[nm] == "NAME")
    keywords = sorted(PlyLexer.keywords)
    discard_idx = [model.name_idx[nm] for nm, _, _ in model.rules if ttype[nm] in DISCARD_TYPES]
    bs = ord("\\")
    nmax = 3 if tier == "quick" else 5
    q = rx.Q(timeout_ms=120000)
    found = []
    for n in range(2, nmax + 1):
        cs = [z3.Int(f"l{n}_{i}") for i in range(n)]
        for p in range(1, n):
            A = Pieces(model, cs[:p], allowed, udl_rules, name_rule, keywords)
            B = Pieces(model, cs[p:], allowed, udl_rules, name_rule, keywords)
            q.push()
            q.add(*[z3.And(c >= 0, c <= rx.MAXCP) for c in cs])
            q.add(A.valid, B.valid)
            if q.check() != "sat":
                q.pop()
                continue
            bads = []
            for lay in L_LAYOUTS:
                m = len(lay)
                joined = cs[:p] + [ord(c) for c in lay] + cs[p:]
                zj = rx.ZDom(len(joined), chars=joined)
                cj = rx.Comp(zj)
                conds = []
                k0, e0 = model.tok_at(cj, 0)
                conds.append(z3.And(k0 == A.kind, e0 == A.end0))
                for sp2, c in A.ud_split:
                    k1, e1 = model.tok_at(cj, sp2)
                    conds.append(z3.Implies(c, z3.And(k1 == model.name_idx[name_rule], e1 == p)))
                # walk the layout region: every token starting inside it is discardable (or a lone backslash) and the walk ends exactly at b
                pos = p
                table = {}
                for i in range(p, p + m):
                    ki, ei = model.tok_at(cj, i)
                    if joined[i] == ord("\r"):
                        table[i] = (True, i + 1)  # ignored character
                        continue
                    okk = z3.Or([ki == d for d in discard_idx] + [z3.And(ki == rx.LIT, joined[i] == bs) if not isinstance(joined[i], int) else (ki == rx.LIT if joined[i] == bs else False)])
                    table[i] = (okk, ei)
                cur = z3.IntVal(p)
                allok = []
                reached = cur == p + m
                for step in range(m):
                    okk = z3.BoolVal(True)
                    nxt = cur
                    for i in range(p, p + m):
                        oki, ei = table[i]
                        okk = z3.If(cur == i, oki if not isinstance(oki, bool) else z3.BoolVal(oki), okk)
                        nxt = z3.If(cur == i, ei, nxt)
                    allok.append(z3.Or(cur >= p + m, okk))
                    cur = z3.If(cur >= p + m, cur, nxt)
                conds.append(z3.And(allok))
                conds.append(cur == p + m)
                kb0, eb0 = model.tok_at(cj, p + m)
                conds.append(z3.And(kb0 == B.kind, eb0 == B.end0 + p + m))
                for sp2, c in B.ud_split:
                    k1, e1 = model.tok_at(cj, p + m + sp2)
                    conds.append(z3.Implies(c, z3.And(k1 == model.name_idx[name_rule], e1 == len(joined))))
                bads.append((lay, z3.Not(z3.And(conds))))
            for lay, badc in bads:
                q.push()
                q.add(badc)
                r = q.check()
                if r == "sat":
                    w = rx.model_string(q.model(), cs)
                    found.append((w[:p], lay, w[p:]))
                elif r != "unsat":
                    ck.undecided.append(f"layer L n={n} p={p} layout {lay!r}: {r}")
                    ck.exhaustive = False
                q.pop()
            q.pop()
    ck.add_queries("z3", q.n, q.secs)
    q.report(ck, "layout law")
    ck.states += q.n
    return model, found, q


def comment_extents(ck, tier, model):
    """E-RX: a block comment token is exactly '/*' .. first '*/' (+ one newline), a line comment exactly '//' .. end of line:
    decided by z3 for every string of n code points, n = 2 .. N"""
    N = 8 if tier == "quick" else 10
    idx_ml = next(model.name_idx[nm] for nm, _, _ in model.rules if model.type_of(nm) == "COMMENT_MULTILINE")
    idx_sl = next(model.name_idx[nm] for nm, _, _ in model.rules if model.type_of(nm) == "COMMENT_SINGLELINE")
    q = rx.Q(timeout_ms=120000)
    found = []
    NONE = -5
    for n in range(2, N + 1):
        zd = rx.ZDom(n, prefix=f"ce{n}_")
        comp = rx.Comp(zd)
        c = zd.c
        k0, e0 = model.tok_at(comp, 0)
        nl = lambda k: (z3.If(c[k] == 10, 1, 0) if k < n else 0)  # noqa
        exp_ml = z3.IntVal(NONE)
        for j in range(n - 2, 1, -1):
            exp_ml = z3.If(z3.And(c[j] == ord("*"), c[j + 1] == ord("/")), j + 2 + nl(j + 2), exp_ml)
        starts_ml = z3.And(c[0] == ord("/"), c[1] == ord("*"))
        exp_sl = z3.IntVal(n)
        for j in range(n - 1, 1, -1):
            exp_sl = z3.If(c[j] == 10, j + 1, exp_sl)
        starts_sl = z3.And(c[0] == ord("/"), c[1] == ord("/"))
        good = z3.And((k0 == idx_ml) == z3.And(starts_ml, exp_ml != NONE), z3.Implies(k0 == idx_ml, e0 == exp_ml),
                      (k0 == idx_sl) == starts_sl, z3.Implies(k0 == idx_sl, e0 == exp_sl))
        q.push()
        q.add(*zd.domain_constraints())
        q.add(z3.Not(good))
        r = q.check()
        if r == "sat":
            found.append(rx.model_string(q.model(), c))
        elif r != "unsat":
            ck.undecided.append(f"comment extents n={n}: {r}")
            ck.exhaustive = False
        q.pop()
    ck.add_queries("z3", q.n, q.secs)
    q.report(ck, "comment extents")
    ck.states += q.n
    return found, q, N


def ref_comment_token(s):
    """reference: (type, end) of a comment starting at s[0], or None"""
    if s.startswith("/*"):
        j = s.find("*/", 2)
        if j < 0:
            return None
        e = j + 2
        return ("COMMENT_MULTILINE", e + (1 if s[e:e + 1] == "\n" else 0))
    if s.startswith("//"):
        j = s.find("\n", 2)
        return ("COMMENT_SINGLELINE", len(s) if j < 0 else j + 1)
    return None


def real_first_token(s):
    from cxxheaderparser.lexer import PlyLexer, LexError

    lx = PlyLexer("f")
    lx.input(s)
    try:
        t = lx.token()
    except LexError:
        return None
    return (t.type, t.lexpos + len(t.value)) if t is not None else None


def real_stream(src):
    from cxxheaderparser.lexer import LexerTokenStream

    ls = LexerTokenStream("f", src)
    out = []
    while True:
        t = ls.token_eof_ok()
        if t is None:
            return out
        out.append((t.type, t.value))


def run(tier):
    from .. import chrun
    from cxxheaderparser.lexer import TokenStream, LexerTokenStream
    from cxxheaderparser.parser import CxxParser

    ck = Check("C09", tier)
    ck.encode(TokenStream.token, TokenStream.token_if, TokenStream.token_peek_if, TokenStream.return_tokens, LexerTokenStream._fill_tokbuf,
              LexerTokenStream.get_doxygen, LexerTokenStream.get_doxygen_after, CxxParser._process_pragma_directive, CxxParser._process_include_directive)
    progs = prog_cache()
    ck.bounds = dict(programs=len(progs), layouts=LAYOUTS, gaps="every token gap of every program", second_gap=(tier == "thorough"), layer_l_layouts=L_LAYOUTS,
                     layer_l_code_points=3 if tier == "quick" else 5)
    ck.assume("programs carry no documentation comments (their attachment is C11) and gaps inside #include / #pragma lines are not perturbed (their end is significant)",
              "layout strings begin and end with white space or a newline, or are a bare backslash-newline, so the C++ token sequence provably stays the same")
    ck.out_of_scope("more than two perturbed gaps at a time", "layouts outside the alphabet")
    t = time.time()
    npairs, _, _ = rx.validate_translator(rx.LexModel(), tier, ck.seed)
    ck.traces += npairs
    ck.sub("translator validation (concrete instantiation vs re)", "E-RX", "holds", pairs=npairs, wall_s=round(time.time() - t, 1))
    t = time.time()
    model, found, q = layer_l(ck, tier)
    ck.sub("layer L: a + layout + b lexes as a, discardables, b (classes chosen by z3)", "E-RX", "holds" if not found else "flagged", queries=q.n,
           solver_s=round(q.secs, 1), wall_s=round(time.time() - t, 1), bound=f"2 tokens, total <= {3 if tier == 'quick' else 5} code points, {len(L_LAYOUTS)} layouts")
    seen = set()
    for a, lay, b in found:
        ck.traces += 1
        try:
            ta, tb = real_stream(a), real_stream(b)
            joined = real_stream(a + lay + b)
        except Exception as e:  # noqa
            joined = f"{type(e).__name__}: {e}"
            ta = tb = None
        if ta is None or len(ta) != 1 or len(tb) != 1:
            raise HarnessError(f"layer L model does not reproduce (pieces): {a!r} {lay!r} {b!r}")
        if joined == ta + tb:
            raise HarnessError(f"layer L model does not reproduce: {a!r} + {lay!r} + {b!r} lexes fine on the real lexer")
        sig = (ta[0][0], lay, tb[0][0])
        if sig in seen:
            continue
        seen.add(sig)
        body = ("from vf.props.c09 import real_stream\n" f"a, lay, b = {a!r}, {lay!r}, {b!r}\ntry:\n    j = real_stream(a + lay + b)\nexcept Exception as e:\n    j = repr(e)\n"
                "want = real_stream(a) + real_stream(b)\nprint(j, want)\nsys.exit(1 if j != want else 0)\n")
        ck.violation(f"lex({a!r} + {lay!r} + {b!r}) = {joined}, expected {ta + tb}", ck.write_replay(body), key=dict(kind="layer-L", a=ta[0][0], b=tb[0][0], layout=lay))

    t = time.time()
    cfound, cq, cn = comment_extents(ck, tier, model)
    ck.sub("comment tokens: a block comment is '/*' up to the first '*/' (+ newline), a line comment '//' up to the end of the line, and nothing else is one",
           "E-RX", "holds" if not cfound else "flagged", queries=cq.n, solver_s=round(cq.secs, 1), wall_s=round(time.time() - t, 1), bound=f"every string of 2..{cn} code points")
    for w in cfound[:3]:
        ck.traces += 1
        want, got = ref_comment_token(w), real_first_token(w)
        gotc = got if got and got[0].startswith("COMMENT") else None
        if want == gotc:
            raise HarnessError(f"comment-extent model does not reproduce on the real lexer: {w!r} -> {got}")
        body = ("from vf.props import c09\n" f"w = {w!r}\nwant, got = c09.ref_comment_token(w), c09.real_first_token(w)\nprint(want, got)\n"
                "gotc = got if got and got[0].startswith('COMMENT') else None\nsys.exit(1 if want != gotc else 0)\n")
        ck.violation(f"comment token of {w!r}: lexer gives {got}, the comment is {want}", ck.write_replay(body), key=dict(kind="comment-extent"))

    pool = chrun.make_pool()
    try:
        tw = chrun.run(__name__, "h_relayout", [(0, 0)], timeout=60, globs=dict(TWIN=True), pool=pool)
        chrun.record(ck, tw, "re-layout reachability twin", expect="refuted")
        res = chrun.run(__name__, "h_relayout", [(a, b) for a in range(len(progs)) for b in range(len(LAYOUTS))], timeout=(200 if tier == "quick" else 900), pool=pool)
        chrun.record(ck, res, "every program x every gap x every layout: result == baseline", bound=f"{len(progs)} programs, {len(LAYOUTS)} layouts, one gap")
        res2 = None
        if tier == "thorough":
            res2 = chrun.run(__name__, "h_relayout", [(a, b) for a in range(len(progs)) for b in range(len(LAYOUTS))], timeout=2400, globs=dict(TWO_GAPS=True), pool=pool)
            chrun.record(ck, res2, "two gaps perturbed at once", bound=f"{len(LAYOUTS)} x {len(LAYOUTS2)} layouts, every gap with each of the next {GAP_SPAN} gaps")
    finally:
        pool.shutdown()
    seen = set()
    for two, r in ((False, res), (True, res2)):
        if r is None:
            continue
        for shard, args, kw, msg in r.counterexamples:
            src, text, bad = relayout_replay(list(shard) + list(args), two)
            ck.traces += 1
            if bad is None:
                raise HarnessError(f"re-layout counterexample did not reproduce: {msg}")
            sig = bad[:40]
            if sig in seen or len(seen) > 8:
                continue
            seen.add(sig + text[:20])
            body = ("from vf.props import c09\n" f"src, text, bad = c09.relayout_replay({list(shard) + list(args)!r}, {two!r})\nprint(repr(src)); print(repr(text)); print(bad)\nsys.exit(1 if bad else 0)\n")
            ck.violation(f"{bad}: {text!r} (baseline {src!r})", ck.write_replay(body), key=dict(kind="relayout", what=sig))
    # directive lines
    nd = 0
    for di in range(len(DIRECTIVES)):
        for ci in range(len(DIR_COMMENTS)):
            src, bad = directive_judge(di, ci)
            nd += 1
            ck.traces += 1
            if bad:
                cm = DIR_COMMENTS[ci].strip()
                kind = "pragma" if DIRECTIVES[di][0].startswith(("pragma", "hash")) else "include" if DIRECTIVES[di][0].startswith("include") else DIRECTIVES[di][0]
                shape_ok = (kind == "pragma" and LAST_SHAPE == "swallows-next-line") or (kind == "include" and LAST_SHAPE == "keeps-comment")
                cls = (kind if shape_ok else "other:" + DIRECTIVES[di][0]) + ("-line-comment" if cm.startswith("//") else "-block-comment" if cm.startswith("/*") else "-other")
                body = ("from vf.props import c09\n" f"src, bad = c09.directive_judge({di}, {ci})\nprint(repr(src)); print(bad)\nsys.exit(1 if bad else 0)\n")
                ck.violation(f"{bad}: {src!r}", ck.write_replay(body), key=dict(kind="directive", cls=cls))
    ck.sub("#include / #pragma lines: a comment before the line end changes nothing", "replay", "holds" if not [v for v in ck.violations if v["key"]["kind"] == "directive"] else "flagged", cases=nd)
    ck.sample(dict(programs=progs[:5]))
    src, text, bad = relayout_replay([len(progs) - 1, 7, 10], False)
    ck.sample(dict(baseline=src, relaid=text, verdict=bad or "ok"))
    ck.extra["explanation"] = "z3 decides the lexer-level layout law for solver-chosen token classes; CrossHair explores program x gap x layout on the real parser"
    return ck
