"""C16 - formatted token values re-lex to the same tokens.

Engine E-RX.  For k = 2 (quick) and k = 3 (thorough) stream tokens with a total of n code points z3 is asked for
code points and split points such that every piece, lexed alone by the model of the built PLY lexer (plus the
user-defined-literal fusion of `LexerTokenStream._fill_tokbuf`), is exactly one stream token, yet the string the
REAL `tokfmt` produces for them does not lex back to the same (type, text) list.  The space decision is not
re-implemented: it is tabulated by calling the real tokfmt on class representatives.  The class pair is chosen by
the solver; each sat answer is replayed through the real LexerTokenStream + tokfmt, blocked, and the query is
repeated until unsat - so the output is the complete set of fusing class pairs inside the bound.
"""
import time

import z3

from .. import rx
from ..common import Check, HarnessError

SPACE = 32


def real_lex(s):
    from cxxheaderparser.lexer import LexerTokenStream
    from cxxheaderparser.tokfmt import Token

    ls = LexerTokenStream("f", s)
    out = []
    while True:
        t = ls.token_eof_ok()
        if t is None:
            return out
        out.append(Token(t.value, t.type))


def classify_rules(model, ck):
    """token | skip | error | data-dependent for every rule, found by running the real lexer on a solver-chosen witness"""
    from cxxheaderparser.lexer import PlyLexer, LexError

    out = {}
    q = rx.Q()
    for nm, a, g in model.rules:
        wit = None
        for n in (1, 2, 3, 4, 6):
            zd = rx.ZDom(n)
            comp = rx.Comp(zd)
            rule, end = model.first_rule(comp, 0)
            if rx.isfail(rule):
                continue
            q.push()
            q.add(*zd.domain_constraints(32, 126))
            q.add(rule == model.name_idx[nm], end == n)
            if q.check() == "sat":
                wit = rx.model_string(q.model(), zd.c)
                q.pop()
                break
            q.pop()
        if wit is None:
            out[nm] = ("unknown", None)
            continue
        lx = PlyLexer("f")
        lx.input(wit)
        try:
            t = lx.token()
            out[nm] = ("token" if t is not None else "skip", wit)
        except LexError:
            out[nm] = ("error", wit)
    ck.add_queries("z3", q.n, q.secs)
    return out


DISCARD_TYPES = {"NEWLINE", "COMMENT_SINGLELINE", "COMMENT_MULTILINE", "WHITESPACE"}
DIRECTIVE_TYPES = {"PRAGMA_DIRECTIVE", "INCLUDE_DIRECTIVE", "PP_DIRECTIVE"}


class Pieces:
    """symbolic description of one piece c[lo:hi) lexed alone: one raw token, or literal + _name (user-defined literal)"""

    def __init__(self, model, chars, allowed_rules, udl_rules, name_rule, keywords):
        self.model = model
        self.chars = chars
        n = len(chars)
        zd = rx.ZDom(n, chars=chars)
        comp = rx.Comp(zd)
        k0, e0 = model.tok_at(comp, 0)
        self.kind = k0
        self.end0 = e0
        d = zd
        allowed = z3.Or([k0 == model.name_idx[r] for r in allowed_rules] + [k0 == rx.LIT])
        single = z3.And(e0 == n, allowed)
        # user-defined literal: literal-class raw token followed by a NAME-rule token starting with '_' that is not a keyword
        ud_opts = []
        for p in range(1, n):
            k1, e1 = model.tok_at(comp, p)
            if isinstance(k1, int):
                continue
            text_is_kw = z3.Or([z3.And([chars[p + j] == ord(kw[j]) for j in range(len(kw))]) for kw in keywords if len(kw) == n - p] or [z3.BoolVal(False)])
            ud_opts.append((p, z3.And(e0 == p, z3.Or([k0 == model.name_idx[r] for r in udl_rules]), k1 == model.name_idx[name_rule], e1 == n,
                                      chars[p] == ord("_"), z3.Not(text_is_kw))))
        self.ud_split = ud_opts
        self.is_ud = z3.Or([c for _, c in ud_opts]) if ud_opts else z3.BoolVal(False)
        self.valid = z3.Or(single, self.is_ud)
        self.single = single
        self.n = n
        self.zd = zd


# ---------------------------------------------------------------------------------------------
# premise: the token readers the parser builds its values from hand out stream tokens only
# ---------------------------------------------------------------------------------------------

TWIN = False
R_KINDS = ["NEWLINE", "WHITESPACE", "COMMENT_SINGLELINE", "COMMENT_MULTILINE", "NAME", ";"]
R_MAX = 5
READERS = ["token_eof_ok", "token_newline_eof_ok", "token", "token_if", "token_if_not", "token_if_val", "token_if_in_set", "token_peek_if"]


def readers_judge(kinds, m):
    """the real TokenStream reader `READERS[m]` over a stub PLY lexer handing out `kinds`: the tokens obtained by calling it until the
    stream is dry are the raw tokens minus the discardable ones (a NEWLINE only survives token_newline_eof_ok), in order"""
    from collections import deque
    from cxxheaderparser.lexer import LexerTokenStream
    from .c08 import StubPly, StubTok

    vals = {"NEWLINE": "\n", "WHITESPACE": " ", "COMMENT_SINGLELINE": "// c\n", "COMMENT_MULTILINE": "/* c */", "NAME": "x", ";": ";"}
    ls = LexerTokenStream.__new__(LexerTokenStream)
    ls._lex = StubPly([StubTok(k, vals[k], j + 1) for j, k in enumerate(kinds)])
    ls.tokbuf = deque()
    name = READERS[m]
    keep = [k for k in kinds if k in ("NAME", ";") or (k == "NEWLINE" and name == "token_newline_eof_ok")]
    got = []
    for _ in range(2 * len(kinds) + 2):
        if name == "token":
            try:
                t = ls.token()
            except EOFError:
                break
        elif name in ("token_eof_ok", "token_newline_eof_ok"):
            t = getattr(ls, name)()
            if t is None:
                break
        else:
            if name == "token_if":
                t = ls.token_if("NAME")
            elif name == "token_if_not":
                t = ls.token_if_not("NAME")
            elif name == "token_if_val":
                t = ls.token_if_val("x")
            elif name == "token_if_in_set":
                t = ls.token_if_in_set({"NAME"})
            else:
                if ls.token_peek_if(";") not in (True, False):
                    return "token_peek_if did not return a bool"
                t = None
            if t is None:  # declined (or peeked): the token must still be there for the plain reader
                t = ls.token_eof_ok()
                if t is None:
                    break
        got.append(t.type)
    if got != keep:
        return f"{name} over {kinds}: handed out {got}, the stream tokens are {keep}"
    return None


def h_readers(c0: int, c1: int, c2: int, c3: int, c4: int, c5: int, c6: int) -> bool:
    """
    post: _
    """
    from crosshair.tracers import NoTracing
    from ..chrun import Chooser

    with NoTracing():
        ch = Chooser([c0, c1, c2, c3, c4, c5, c6])
        m = ch.pick(len(READERS))
        kinds = []
        while len(kinds) < R_MAX:
            k = ch.pick(len(R_KINDS) + 1)
            if k == len(R_KINDS):
                break
            kinds.append(R_KINDS[k])
        if TWIN:
            return False
        return readers_judge(kinds, m) is None


def readers_replay(vals):
    from ..chrun import Chooser

    ch = Chooser(list(vals), prefix=())
    m = ch.pick(len(READERS))
    kinds = []
    while len(kinds) < R_MAX:
        k = ch.pick(len(R_KINDS) + 1)
        if k == len(R_KINDS):
            break
        kinds.append(R_KINDS[k])
    return kinds, READERS[m], readers_judge(kinds, m)


TYPE_EXTRA = ["V<sizeof...(Ts)> v;", "V<1 + sizeof...(Ts), int> v;", "decltype(static_cast<const T&>(t)) v;", "typename decltype(new Foo)::element_type v;",
              "template <typename... Ts> Pack<sizeof...(Ts)> make(Ts... ts);", "void f() noexcept(noexcept(g(1 << 2)));", "#pragma omp parallel for num_threads(4)\n",
              "struct S { int b : sizeof(int) * 2; int a[3 + 4] = {1, 2}; };", "template <auto N = sizeof(unsigned int)> struct Z {};",
              "constexpr auto page = sizeof 4_KiB;", "bool ok = not 1_flag;", "auto q = x or 1_V; auto s = \"abc\"_s + 1.5_m;", "int t[10] = { [0 ... 9] = 1 };"]


def _walk_tokens(o, out, seen):
    import dataclasses
    from cxxheaderparser.types import Token

    if isinstance(o, Token):
        out.append(o)
    elif dataclasses.is_dataclass(o) and not isinstance(o, type):
        if id(o) in seen:
            return
        seen.add(id(o))
        for f in dataclasses.fields(o):
            _walk_tokens(getattr(o, f.name), out, seen)
    elif isinstance(o, (list, tuple)):
        for x in o:
            _walk_tokens(x, out, seen)
    elif isinstance(o, dict):
        for x in o.values():
            _walk_tokens(x, out, seen)


def types_judge(src):
    """premise of the spacing analysis: every Token a result exposes carries the type the lexer gives its text (tokfmt spaces by type)"""
    from cxxheaderparser.simple import parse_string
    from cxxheaderparser.errors import CxxParseError

    try:
        d = parse_string(src)
    except CxxParseError:
        return None
    from cxxheaderparser.tokfmt import tokfmt

    groups = []
    _walk_token_lists(d, groups, set())
    for toks in groups:
        odd = None
        for t in toks:
            try:
                lx = real_lex(t.value)
            except Exception as e:  # noqa
                return f"token text {t.value!r} of the result does not lex: {e}"
            if len(lx) != 1 or lx[0].type != t.type:
                odd = f"token {t.value!r} is exposed with type {t.type!r}; the lexer gives {[x.type for x in lx]}"
                break
        # the property itself, end to end: the formatted list lexes back to the same texts.  (A token with a type of its own is
        # only the premise of the solver analysis failing; it is named in the message.)  Glued ']' ']' / '[' '[' is the listed
        # finding D2-punct and is left to the class analysis below.
        fmt = tokfmt(toks)
        try:
            back = [x.value for x in real_lex(fmt)]
        except Exception as e:  # noqa
            back = repr(e)
        if back != [t.value for t in toks]:
            vals_ = [t.value for t in toks]
            glued = any(a == b and a in ("[", "]") for a, b in zip(vals_, vals_[1:]))
            if glued and odd is None:
                continue
            return f"{odd or 'value tokens ' + repr(vals_)}; tokfmt gives {fmt!r}, which lexes back as {back}"
    return None


def _walk_token_lists(o, out, seen):
    """every list of Tokens a result exposes (Value.tokens, DecltypeSpecifier.tokens, ...)"""
    import dataclasses
    from cxxheaderparser.types import Token

    if dataclasses.is_dataclass(o) and not isinstance(o, type):
        if id(o) in seen:
            return
        seen.add(id(o))
        for f in dataclasses.fields(o):
            _walk_token_lists(getattr(o, f.name), out, seen)
    elif isinstance(o, (list, tuple)):
        if o and all(isinstance(x, Token) for x in o):
            out.append(list(o))
            return
        for x in o:
            _walk_token_lists(x, out, seen)
    elif isinstance(o, dict):
        for x in o.values():
            _walk_token_lists(x, out, seen)


def types_source(ch):
    from . import c14

    k = ch.pick(len(c14.POSITIONS) + 1)
    if k == len(c14.POSITIONS):
        return TYPE_EXTRA[ch.pick(len(TYPE_EXTRA))]
    pos = c14.POSITIONS[k]
    expr = c14.EXPRS[ch.pick(len(c14.EXPRS))]
    if not c14.applicable(pos, expr, c14.lex_values(expr)):
        return None
    return pos[1].format(E=expr)


def h_types(c0: int, c1: int) -> bool:
    """
    post: _
    """
    from crosshair.tracers import NoTracing
    from ..chrun import Chooser

    with NoTracing():
        src = types_source(Chooser([c0, c1]))
        if src is None:
            return True
        if TWIN:
            return False
        return types_judge(src) is None


def check_types(ck, tier):
    from .. import chrun
    from ..chrun import Chooser
    from . import c14

    pool = chrun.make_pool()
    try:
        tw = chrun.run(__name__, "h_types", [(0, 0)], timeout=60, globs=dict(TWIN=True), pool=pool)
        chrun.record(ck, tw, "token types reachability twin", expect="refuted")
        r = chrun.run(__name__, "h_types", [(a,) for a in range(len(c14.POSITIONS) + 1)], timeout=150 if tier == "quick" else 600, globs=dict(TWIN=False), pool=pool)
        chrun.record(ck, r, "every token list exposed in a result carries the lexer's token types, or at least formats to a text that lexes back to it (value positions x expressions, decltype, sizeof..., pragma)",
                     bound=f"{len(c14.POSITIONS)} positions x {len(c14.EXPRS)} expressions + {len(TYPE_EXTRA)} sources")
    finally:
        pool.shutdown()
    seen = set()
    for shard, args, kw, msg in r.counterexamples:
        vals = list(shard) + list(args)
        src = types_source(Chooser(vals, prefix=()))
        bad = types_judge(src) if src else None
        ck.traces += 1
        if bad is None:
            raise HarnessError(f"token-type counterexample did not reproduce: {msg}")
        if bad[:40] in seen:
            continue
        seen.add(bad[:40])
        body = ("from vf.props import c16\n" f"bad = c16.types_judge({src!r})\nprint(bad)\nsys.exit(1 if bad else 0)\n")
        ck.violation(f"{bad} (source {src!r})", ck.write_replay(body), key=dict(kind="token-type"))


def check_readers(ck, tier):
    from .. import chrun

    rmax = 4 if tier == "quick" else 6
    pool = chrun.make_pool()
    try:
        tw = chrun.run(__name__, "h_readers", [(0,)], timeout=60, globs=dict(TWIN=True, R_MAX=rmax), pool=pool)
        chrun.record(ck, tw, "token readers reachability twin", expect="refuted")
        shards = [(a, b) for a in range(len(READERS)) for b in range(len(R_KINDS) + 1)]
        r = chrun.run(__name__, "h_readers", shards, timeout=150 if tier == "quick" else 900, globs=dict(TWIN=False, R_MAX=rmax), pool=pool)
        chrun.record(ck, r, "premise: every TokenStream reader hands out stream tokens only (no white space, comment; newline only where asked for), all raw token sequences",
                     bound=f"<= {rmax} raw tokens over {len(R_KINDS)} kinds, {len(READERS)} readers")
    finally:
        pool.shutdown()
    globals()["R_MAX"] = rmax
    seen = set()
    for shard, args, kw, msg in r.counterexamples:
        vals = list(shard) + list(args)
        kinds, name, bad = readers_replay(vals)
        ck.traces += 1
        if bad is None:
            raise HarnessError(f"token-reader counterexample did not reproduce: {msg}")
        if name in seen:
            continue
        seen.add(name)
        body = ("from vf.props import c16\n" f"c16.R_MAX = {rmax}\nkinds, name, bad = c16.readers_replay({vals!r})\nprint(kinds, name); print(bad)\nsys.exit(1 if bad else 0)\n")
        ck.violation(bad, ck.write_replay(body), key=dict(kind="reader", reader=name))


def run(tier):
    ck = Check("C16", tier)
    from cxxheaderparser import tokfmt as tf
    from cxxheaderparser.lexer import PlyLexer, LexerTokenStream

    model = rx.LexModel()
    from cxxheaderparser.lexer import TokenStream

    ck.encode(tf.tokfmt, PlyLexer, LexerTokenStream._fill_tokbuf, TokenStream.token, TokenStream.token_eof_ok, TokenStream.token_newline_eof_ok, TokenStream.token_if,
              TokenStream.token_if_not, TokenStream.token_if_val, TokenStream.token_if_in_set, TokenStream.token_peek_if)
    nmax = 4 if tier == "quick" else 6
    ck.bounds = dict(plan=("2 tokens <= %d code points; 3 tokens <= %d" % (nmax, 3 if tier == "quick" else 5)) + ("; 4 tokens <= 4; 5 tokens <= 5" if tier == "thorough" else ""))
    ck.assume("code points range over 0..0x10FFFF",
              "pieces are stream tokens as LexerTokenStream.token() returns them: discardable tokens (whitespace, newline, comments), "
              "preprocessor-directive tokens and lexer-error matches are not pieces",
              "the space decision is read off the real tokfmt by calling it on every ordered pair of class representatives")
    ck.out_of_scope(f"fusions that need token texts longer than {nmax} code points in total", "sequences whose mis-lexing needs four or more tokens")

    check_readers(ck, tier)
    check_types(ck, tier)
    t = time.time()
    npairs, nstr, npieces = rx.validate_translator(model, tier, ck.seed)
    ck.traces += npairs
    ck.sub("translator validation (concrete instantiation vs re)", "E-RX", "holds", pairs=npairs, wall_s=round(time.time() - t, 1))

    kinds = classify_rules(model, ck)
    ttype = {nm: model.type_of(nm) for nm, _, _ in model.rules}
    allowed = [nm for nm, (k, _) in kinds.items() if k == "token" and ttype[nm] not in DISCARD_TYPES | DIRECTIVE_TYPES]
    udl_types = set(LexerTokenStream._user_defined_literal_start)
    udl_rules = [nm for nm in allowed if ttype[nm] in udl_types]
    name_rule = next(nm for nm in allowed if ttype[nm] == "NAME")
    keywords = sorted(PlyLexer.keywords)
    ws_rules = [nm for nm, _, _ in model.rules if ttype[nm] == "WHITESPACE"]
    if len(ws_rules) != 1:
        raise HarnessError("expected exactly one WHITESPACE rule")
    ck.sample(dict(rule_classification={nm: k for nm, (k, _) in kinds.items()}))

    # ---- space decision tabulated from the real tokfmt -------------------------------------------------
    Token = tf.Token
    reps = {}  # class key -> (type, sample text)
    for nm in allowed:
        ty = ttype[nm]
        w = kinds[nm][1]
        reps[("rule", nm, False)] = (ty, w)
        if nm in udl_rules:
            reps[("rule", nm, True)] = ("UD_" + ty, w + "_x")
    for ch in model.literals:
        reps[("lit", ch, False)] = (ch, ch)
    kw_rows = {}
    for kw in keywords:
        reps[("kw", kw, False)] = (kw, kw)

    def real_space(ka, kb):
        ta, tb = reps[ka], reps[kb]
        s = tf.tokfmt([Token(ta[1], ta[0]), Token(tb[1], tb[0])])
        if s == ta[1] + tb[1]:
            return False
        if s == ta[1] + " " + tb[1]:
            return True
        raise HarnessError(f"tokfmt produced {s!r} for {ta} {tb}: neither joined nor single-space separated")

    keys = list(reps)
    table = {}
    for ka in keys:
        for kb in keys:
            table[(ka, kb)] = real_space(ka, kb)
    ck.traces += len(table)
    # the decision must be a function of the adjacent pair alone: check on triples of a reduced representative set
    red = [k for k in keys if k[0] != "kw"][:60]
    ntr = 0
    for ka in red[::3]:
        for kb in red[::2]:
            for kc in red[::3]:
                ta, tb, tc = reps[ka], reps[kb], reps[kc]
                s = tf.tokfmt([Token(ta[1], ta[0]), Token(tb[1], tb[0]), Token(tc[1], tc[0])])
                exp = ta[1] + (" " if table[(ka, kb)] else "") + tb[1] + (" " if table[(kb, kc)] else "") + tc[1]
                ntr += 1
                if s != exp:
                    raise HarnessError(f"tokfmt's space decision is not pairwise: {ta} {tb} {tc} -> {s!r}")
    ck.traces += ntr
    ck.sub("space decision tabulated from the real tokfmt", "replay", "holds", pairs=len(table), triples=ntr)

    # group class keys by their (row, column) behaviour so the z3 encoding stays small
    def sig(k):
        return (tuple(table[(k, o)] for o in keys), tuple(table[(o, k)] for o in keys))

    groups = {}
    for k in keys:
        groups.setdefault(sig(k), []).append(k)
    glist = list(groups.values())
    gidx = {k: gi for gi, ks in enumerate(glist) for k in ks}
    gspace = {(ga, gb): table[(glist[ga][0], glist[gb][0])] for ga in range(len(glist)) for gb in range(len(glist))}
    ck.sample(dict(spacing_classes=len(glist), sizes=[len(g) for g in glist]))

    def group_of(piece):
        """z3 int: spacing group of a piece"""
        g = z3.IntVal(-1)
        chars, n = piece.chars, piece.n
        for nm in allowed:
            idx = model.name_idx[nm]
            g = z3.If(z3.And(piece.kind == idx, z3.Not(piece.is_ud)), gidx[("rule", nm, False)], g)
            if nm in udl_rules:
                g = z3.If(z3.And(piece.kind == idx, piece.is_ud), gidx[("rule", nm, True)], g)
        for ch in model.literals:
            g = z3.If(z3.And(piece.kind == rx.LIT, chars[0] == ord(ch)), gidx[("lit", ch, False)], g)
        nidx = model.name_idx[name_rule]
        for kw in keywords:
            if len(kw) == n and gidx[("kw", kw, False)] != gidx[("rule", name_rule, False)]:
                g = z3.If(z3.And(piece.kind == nidx, z3.And([chars[j] == ord(kw[j]) for j in range(n)])), gidx[("kw", kw, False)], g)
        return g

    def space_term(ga, gb):
        t_ = z3.BoolVal(False)
        for (a, b), v in gspace.items():
            if v:
                t_ = z3.Or(t_, z3.And(ga == a, gb == b))
        return t_

    # ---- the query ----------------------------------------------------------------------------------------
    widx = model.name_idx[ws_rules[0]]
    nidx = model.name_idx[name_rule]

    def mk_piece(chars):
        P = Pieces(model, chars, allowed, udl_rules, name_rule, keywords)
        P.group = group_of(P)
        return P

    def seq_good(pieces, cs_all):
        """formatted string of the pieces lexes back to exactly these stream tokens"""
        k = len(pieces)
        spaces = [space_term(pieces[j].group, pieces[j + 1].group) for j in range(k - 1)]
        import itertools as it

        conj = []
        for pat in it.product((False, True), repeat=k - 1):
            joined, offs = [], []
            for j, P in enumerate(pieces):
                offs.append(len(joined))
                joined += list(P.chars)
                if j < k - 1 and pat[j]:
                    joined.append(z3.IntVal(SPACE))
            zj = rx.ZDom(len(joined), chars=joined)
            cj = rx.Comp(zj)
            conds = []
            for j, P in enumerate(pieces):
                o = offs[j]
                k0, e0 = model.tok_at(cj, o)
                conds.append(z3.And(k0 == P.kind, e0 == P.end0 + o))
                for sp2, c in P.ud_split:
                    k1, e1 = model.tok_at(cj, o + sp2)
                    conds.append(z3.Implies(c, z3.And(k1 == nidx, e1 == o + P.n)))
                if j < k - 1:
                    if pat[j]:
                        kw_, ew = model.tok_at(cj, o + P.n)
                        conds.append(z3.And(kw_ == widx, ew == o + P.n + 1))
                    else:
                        Nx = pieces[j + 1]
                        text_kw = z3.Or([z3.And([Nx.chars[x] == ord(kw[x]) for x in range(len(kw))]) for kw in keywords if len(kw) == Nx.n]
                                        or [z3.BoolVal(False)])
                        # a plain literal-class token directly followed by a plain non-keyword _name would fuse into a UD literal
                        last_is_udl = z3.And(z3.Not(P.is_ud), z3.Or([P.kind == model.name_idx[r] for r in udl_rules]))
                        cross = z3.And(last_is_udl, z3.Not(Nx.is_ud), Nx.kind == nidx, Nx.chars[0] == ord("_"), z3.Not(text_kw))
                        conds.append(z3.Not(cross))
            pat_c = z3.And([spaces[j] if pat[j] else z3.Not(spaces[j]) for j in range(k - 1)])
            conj.append(z3.Implies(pat_c, z3.And(conds)))
        return z3.And(conj)

    def compositions(n, k):
        if k == 1:
            yield (n,)
            return
        for first in range(1, n - k + 2):
            for rest in compositions(n - first, k - 1):
                yield (first,) + rest

    q = rx.Q(timeout_ms=120000)
    found = []  # list of piece tuples
    t = time.time()
    plan = [(2, nmax)]
    if tier == "thorough":
        plan += [(3, 5), (4, 4), (5, 5)]
    else:
        plan += [(3, 3)]
    for k, ntop in plan:
        nq0, nf0 = q.n, len(found)
        for n in range(k, ntop + 1):
            cs = [z3.Int(f"c{k}_{n}_{i}") for i in range(n)]
            for comp_ in compositions(n, k):
                pieces, o = [], 0
                for L in comp_:
                    pieces.append(mk_piece(cs[o:o + L]))
                    o += L
                q.push()
                q.add(*[z3.And(c >= 0, c <= rx.MAXCP) for c in cs])
                q.add(*[P.valid for P in pieces])
                if k > 2:
                    # only genuinely k-ary effects: every shorter window is fine on its own
                    for w_ in range(2, k):
                        for j in range(k - w_ + 1):
                            q.add(seq_good(pieces[j:j + w_], cs))
                if q.check() != "sat":  # reachability witness for this split
                    q.pop()
                    continue
                q.add(z3.Not(seq_good(pieces, cs)))
                while True:
                    r = q.check()
                    if r != "sat":
                        if r != "unsat":
                            ck.undecided.append(f"k={k} n={n} split={comp_}: {r}")
                            ck.exhaustive = False
                        break
                    m = q.model()
                    w = rx.model_string(m, cs)
                    texts, o = [], 0
                    blk = []
                    for P, L in zip(pieces, comp_):
                        texts.append(w[o:o + L])
                        kv = m.eval(P.kind).as_long()
                        ud = z3.is_true(m.eval(P.is_ud, model_completion=True))
                        blk += [P.kind == kv, P.is_ud == ud]
                        if kv == rx.LIT:
                            blk.append(cs[o] == ord(w[o]))
                        o += L
                    found.append(tuple(texts))
                    q.add(z3.Not(z3.And(blk)))
                q.pop()
        ck.sub(f"{k} tokens: solver-chosen classes with blocking clauses", "E-RX", "holds" if len(found) == nf0 else "flagged",
               queries=q.n - nq0, bound=f"{k} tokens, total <= {ntop} code points", sat_models=len(found) - nf0)
    # keywords whose spacing differs from a plain NAME are longer than the code-point bound: one concrete representative per
    # spacing group, next to a symbolic neighbour on either side
    name_group = gidx[("rule", name_rule, False)]
    reps_kw = {}
    for kw in keywords:
        gk = gidx[("kw", kw, False)]
        if gk != name_group:
            reps_kw.setdefault(gk, kw)
    nq0, nf0 = q.n, len(found)
    for gk, kw in sorted(reps_kw.items()):
        kwc = [ord(c) for c in kw]
        for nb in (1, 2, 3):
            for side in (0, 1):
                cs = [z3.Int(f"k{gk}_{nb}_{side}_{i}") for i in range(nb)]
                chars = (kwc + cs) if side == 0 else (cs + kwc)
                pieces = [mk_piece(kwc), mk_piece(cs)] if side == 0 else [mk_piece(cs), mk_piece(kwc)]
                q.push()
                q.add(*[z3.And(c >= 0, c <= rx.MAXCP) for c in cs])
                q.add(*[P.valid for P in pieces])
                if q.check() != "sat":
                    q.pop()
                    continue
                q.add(z3.Not(seq_good(pieces, chars)))
                while True:
                    r = q.check()
                    if r != "sat":
                        if r != "unsat":
                            ck.undecided.append(f"keyword {kw} side {side} n={nb}: {r}")
                        break
                    m = q.model()
                    w = rx.model_string(m, cs)
                    P = pieces[1 - side]
                    kv = m.eval(P.kind).as_long()
                    ud = z3.is_true(m.eval(P.is_ud, model_completion=True))
                    blk = [P.kind == kv, P.is_ud == ud]
                    if kv == rx.LIT:
                        blk.append(cs[0] == ord(w[0]))
                    found.append((kw, w) if side == 0 else (w, kw))
                    q.add(z3.Not(z3.And(blk)))
                q.pop()
    ck.sub("keywords with their own spacing row (concrete representative) next to a symbolic token", "E-RX", "holds" if len(found) == nf0 else "flagged",
           queries=q.n - nq0, representatives=sorted(reps_kw.values()), sat_models=len(found) - nf0)
    ck.add_queries("z3", q.n, q.secs)
    q.report(ck, "token fusing")
    ck.states += q.n
    ck.sub("all token-count plans", "E-RX", "holds" if not found else "flagged", queries=q.n, solver_s=round(q.secs, 1),
           wall_s=round(time.time() - t, 1))

    # ---- replay every model on the real lexer + tokfmt ------------------------------------------------------
    seen = set()
    for texts in found:
        ck.traces += 1
        toks = []
        for x in texts:
            try:
                tx = real_lex(x)
            except Exception as ex:  # noqa
                raise HarnessError(f"piece does not lex on the real lexer: {x!r}: {ex}")
            if len(tx) != 1 or tx[0].value != x:
                raise HarnessError(f"piece is not a single stream token on the real lexer: {x!r} -> {tx}")
            toks.append(tx[0])
        fmt = tf.tokfmt(toks)
        try:
            back = [(x.type, x.value) for x in real_lex(fmt)]
        except Exception as ex:  # noqa
            back = f"{type(ex).__name__}: {ex}"
        exp = [(tk.type, tk.value) for tk in toks]
        if back == exp:
            raise HarnessError(f"solver model does not reproduce: {texts!r} -> {fmt!r} re-lexes fine")
        types = [cls_of(tk.type, keywords) for tk in toks]
        kwtexts = [tk.value for tk in toks if tk.type in keywords and gidx.get(("kw", tk.type, False)) != gidx[("rule", name_rule, False)]]
        if kwtexts:
            types = [("KW:" + tk.value) if tk.value in kwtexts else ty for tk, ty in zip(toks, types)]
        key = dict(kind="seq", n=len(toks), types="|".join(types), cats="|".join(cat_of(ty) for ty in types),
                   first2="|".join(types[:2]), last2="|".join(types[-2:]), lead=(types[0] if types[0].startswith("KW:") else ""))
        if key["types"] in seen:
            continue
        seen.add(key["types"])
        body = (
            "from vf.props.c16 import real_lex\nfrom cxxheaderparser.tokfmt import tokfmt\n"
            f"texts = {list(texts)!r}\ntoks = [real_lex(x)[0] for x in texts]\nfmt = tokfmt(toks)\n"
            "try:\n    back = [(t.type, t.value) for t in real_lex(fmt)]\nexcept Exception as e:\n    back = repr(e)\n"
            "exp = [(t.type, t.value) for t in toks]\nprint('tokens', exp, 'formatted', repr(fmt), 're-lexed', back)\n"
            "sys.exit(1 if back != exp else 0)\n")
        path = ck.write_replay(body)
        ck.violation(f"tokfmt({exp}) = {fmt!r} re-lexes as {back}", path, key=key)
        ck.sample(dict(tokens=exp, formatted=fmt, relexed=back), limit=40)
    ck.extra["fusing_class_pairs"] = sorted(seen)
    ck.extra["explanation"] = ("z3 decides, over all code-point strings inside the bound, whether two stream tokens exist whose tokfmt output "
                               "re-lexes differently; all class pairs are enumerated by blocking clauses and replayed on the real code")
    return ck


def cls_of(ttype, keywords):
    if ttype in keywords:
        return "KEYWORD"
    return ttype


def cat_of(ty):
    """coarse category used by known-finding matching"""
    if ty == ".":
        return "DOT"
    if ty.startswith("UD_"):
        return "UD"
    if ty in ("NAME", "KEYWORD") or ty.startswith("KW:"):
        return "WORD"
    if ty.endswith("_CONST") or "_CONST_" in ty:
        return "CHAR" if "CHAR" in ty else "NUM"
    if ty.endswith("STRING_LITERAL"):
        return "STRING"
    return "PUNCT"
