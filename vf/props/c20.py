"""C20 - entry points and tools agree with one another.

Wiring (E-CH traced, symbolic strings): parse_file(path, encoding) with `open` / `sys.stdin` replaced by recording
stubs; encoding is a symbolic Optional[str], the path a symbolic str (also wrapped in an os.PathLike): the file is
opened exactly once, with that path, in text mode with encoding E (default utf-8-sig), '-' reads stdin and never
opens, and the result equals parse_string(content, filename=path).
Tools: eval(nondefault_repr(d)) == d and CLI --mode json == dataclasses.asdict(d) for every ParsedData of a corpus
regenerated from /repo/tests plus generated programs; concrete end-to-end confirmation per encoding.
"""
import dataclasses
import io
import json
import os
import sys
import tempfile
import time
from typing import Optional

from crosshair.tracers import NoTracing

from ..common import Check, HarnessError
from ..chrun import Chooser

TWIN = False
CONTENTS = ["int x;\n", "namespace N { struct S { int a; }; }\nvoid f(int);\n", "// only a comment\n", ""]


class FakeFile:
    def __init__(self, content):
        self.content = content

    def read(self):
        return self.content

    def __enter__(self):
        return self

    def __exit__(self, *a):
        return False


class PathLike:
    def __init__(self, p):
        self.p = p

    def __fspath__(self):
        return self.p


class FakeOS:
    """os.fsdecode for str / PathLike-of-str without the C call that would realise a symbolic string"""

    PathLike = os.PathLike

    @staticmethod
    def fsdecode(p):
        if isinstance(p, str):
            return p
        return p.__fspath__()


class FakeStdin:
    def __init__(self, content):
        self.content = content
        self.reads = 0

    def read(self):
        self.reads += 1
        return self.content


def h_parse_file(path: str, enc: Optional[str], c0: int, c1: int) -> bool:
    """
    pre: 1 <= len(path) <= 4
    pre: enc is None or len(enc) <= 6
    pre: chr(0) not in path
    post: _
    """
    from cxxheaderparser import parser as parser_mod
    from cxxheaderparser import simple

    ch = Chooser([c0, c1])
    content = CONTENTS[ch.pick(len(CONTENTS))]
    as_pathlike = ch.flag()
    calls = []

    def fake_open(name, mode="r", *a, **kw):
        calls.append((name, mode, kw.get("encoding", a[1] if len(a) > 1 else None)))
        return FakeFile(content)

    stdin = FakeStdin(content)
    old_stdin, old_os = simple.sys.stdin, simple.os
    parser_mod.open = fake_open
    simple.sys.stdin = stdin
    simple.os = FakeOS
    try:
        arg = PathLike(path) if as_pathlike else path
        d = simple.parse_file(arg, enc)
    finally:
        del parser_mod.open
        simple.sys.stdin = old_stdin
        simple.os = old_os
    if TWIN:
        return False
    with NoTracing():
        expect = simple.parse_string(content, filename="any")
    if d != expect:
        return False
    if path == "-":
        return len(calls) == 0 and stdin.reads == 1
    want = "utf-8-sig" if enc is None else enc
    if len(calls) != 1 or stdin.reads != 0:
        return False
    name, mode, encoding = calls[0]
    return name == path and encoding == want and ("b" not in mode) and mode[:1] == "r"


def h_filename_in_errors(path: str) -> bool:
    """
    pre: 1 <= len(path) <= 4
    pre: path != "-"
    post: _
    """
    # the file name handed to parse_file is the one errors and locations report
    from cxxheaderparser import parser as parser_mod
    from cxxheaderparser import simple
    from cxxheaderparser.errors import CxxParseError

    parser_mod.open = lambda name, mode="r", **kw: FakeFile("int x;\n}\n")
    old_os = simple.os
    simple.os = FakeOS
    try:
        try:
            simple.parse_file(path)
        except CxxParseError as e:
            msg = str(e)
            if TWIN:
                return False
            return msg.startswith(path + ":2: ")
        return False
    finally:
        del parser_mod.open
        simple.os = old_os


# ---------------------------------------------------------------------------------------------
# tools over a corpus
# ---------------------------------------------------------------------------------------------


def corpus(tier, seed):
    from .. import rx

    snips = rx.test_corpus_snippets()
    extra = [
        "struct { int a; } x, *y; typedef struct { int q; } Q; union U { struct { int i; }; };",
        'extern "C" int f(void); static constexpr int arr[3] = {1, 2, 3}; template <typename T = int, int N = 3> struct A {};',
        "namespace a::b { inline namespace c { enum class E : int { A = 1, B = A << 2 }; } } using namespace a::b;",
        "class C : public virtual B, private D<int>... { public: C() = default; virtual ~C(); operator bool() const noexcept; int b : 3; };",
        "/// doc é\nint documented; const char *s = \"\\\"q\\\" ü\"; auto l = u8'a';",
        "#include <a.h>\n#pragma once\n#pragma pack(push, 1)\n",
        "void g() throw(int); void h() noexcept(noexcept(g())); auto t() -> decltype(1 + 2);",
    ]
    return snips + extra


def tool_judge(src):
    """returns None, 'skip' (does not parse), or a description"""
    import cxxheaderparser.simple as simple
    from cxxheaderparser.errors import CxxParseError
    from cxxheaderparser.gentest import nondefault_repr
    from cxxheaderparser.parser import CxxParser

    try:
        d = simple.parse_string(src, cleandoc=True)
    except CxxParseError:
        return "skip"
    # CxxParser + SimpleCxxVisitor == parse_string
    import inspect

    v = simple.SimpleCxxVisitor()
    CxxParser("<str>", inspect.cleandoc(src), v, None).parse()
    if v.data != d:
        return "CxxParser + SimpleCxxVisitor differs from parse_string"
    # compact repr evaluates back to an equal ParsedData
    ns = {}
    exec("from cxxheaderparser.types import *\nfrom cxxheaderparser.simple import *\nfrom cxxheaderparser.tokfmt import Token", ns)
    text = nondefault_repr(d)
    try:
        back = eval(text, ns)
    except Exception as e:  # noqa
        return f"nondefault_repr does not evaluate: {type(e).__name__}: {e}"
    if back != d:
        return "eval(nondefault_repr(d)) != d"
    return None


def cli_json(path, extra_args=()):
    """run the dump CLI in-process: returns parsed JSON"""
    from cxxheaderparser import dump

    old_argv, old_out = sys.argv, sys.stdout
    buf = io.StringIO()
    sys.argv = ["cxxheaderparser", "--mode", "json", *extra_args, path]
    sys.stdout = buf
    try:
        dump.dumpmain()
    finally:
        sys.argv, sys.stdout = old_argv, old_out
    return json.loads(buf.getvalue())


def cli_judge(src, encoding=None, bom=False):
    import cxxheaderparser.simple as simple
    from cxxheaderparser.errors import CxxParseError

    try:
        d = simple.parse_string(src)
    except CxxParseError:
        return "skip"
    fd, p = tempfile.mkstemp(suffix=".h", prefix="vfc20_")
    try:
        with os.fdopen(fd, "wb") as fp:
            fp.write((b"\xef\xbb\xbf" if bom else b"") + src.encode(encoding or "utf-8"))
        try:
            got = cli_json(p, ("--encoding", encoding) if encoding else ())
        except SystemExit as e:
            return f"CLI exited with {e.code}"
        except Exception as e:  # noqa
            return f"CLI raised {type(e).__name__}: {e}"
    finally:
        os.unlink(p)
    want = json.loads(json.dumps(dataclasses.asdict(d)))
    return None if got == want else "CLI --mode json differs from dataclasses.asdict(parse_string(...))"


ENC_TEXT = "// café üß\nconst char *s = \"naïve\";\nint after;\n"


def encoding_judge(enc, bom=False):
    """parse_file(path, encoding=enc) == parse_string(decoded text)"""
    import cxxheaderparser.simple as simple

    fd, p = tempfile.mkstemp(suffix=".h", prefix="vfc20_")
    try:
        data = ENC_TEXT.encode(enc)
        if bom:
            data = b"\xef\xbb\xbf" + data
        with os.fdopen(fd, "wb") as fp:
            fp.write(data)
        if enc == "utf-8":
            got = simple.parse_file(p)  # default: utf-8 with optional BOM
        else:
            got = simple.parse_file(p, encoding=enc)
        want = simple.parse_string(ENC_TEXT, filename=p)
        if got != want:
            return f"parse_file(.., encoding={enc!r}) differs from parse_string of the decoded text"
        import pathlib

        got2 = simple.parse_file(pathlib.Path(p), encoding=None if enc == "utf-8" else enc)
        if got2 != want:
            return "parse_file(pathlib.Path) differs"
    except Exception as e:  # noqa
        return f"parse_file(.., encoding={enc!r}) raised {type(e).__name__}: {e}"
    finally:
        os.unlink(p)
    return None


# code-point classes a string in a result can be made of (one representative each): the compact repr must survive all of them
REPR_CPS = ["a", "'", '"', chr(92), "\n", "\x00", "\x7f", "\xe9", "\u2028", "\uffff", "\U00010000", "\U0001f600", "\ud800", "\U0010ffff", "{", "%"]
REPR_MAX = 2


def repr_data(sv):
    from cxxheaderparser.simple import ParsedData, NamespaceScope, Include
    from cxxheaderparser.types import Variable, PQName, NameSpecifier, Type, FundamentalSpecifier, Value, Token

    return ParsedData(namespace=NamespaceScope(variables=[Variable(name=PQName([NameSpecifier(sv)]), type=Type(PQName([FundamentalSpecifier("int")])),
                                                                  value=Value([Token(sv, "STRING_LITERAL")]), doxygen=sv)], doxygen=sv), includes=[Include(sv)])


def repr_judge(sv):
    from cxxheaderparser.gentest import nondefault_repr

    d = repr_data(sv)
    ns = {}
    exec("from cxxheaderparser.types import *\nfrom cxxheaderparser.simple import *\nfrom cxxheaderparser.tokfmt import Token", ns)
    try:
        text = nondefault_repr(d)
        back = eval(text, ns)
    except Exception as e:  # noqa
        return f"nondefault_repr of a result holding the string {sv!a} does not evaluate: {type(e).__name__}: {e}"
    if back != d:
        return f"eval(nondefault_repr(d)) != d for a result holding the string {sv!a}"
    return None


def h_repr(c0: int, c1: int, c2: int) -> bool:
    """
    post: _
    """
    with NoTracing():
        ch = Chooser([c0, c1, c2])
        sv = ""
        while len(sv) < REPR_MAX:
            k = ch.pick(len(REPR_CPS) + 1)
            if k == len(REPR_CPS):
                break
            sv += REPR_CPS[k]
        if TWIN:
            return False
        return repr_judge(sv) is None


def repr_replay(vals):
    ch = Chooser(list(vals), prefix=())
    sv = ""
    while len(sv) < REPR_MAX:
        k = ch.pick(len(REPR_CPS) + 1)
        if k == len(REPR_CPS):
            break
        sv += REPR_CPS[k]
    return sv, repr_judge(sv)


def run(tier):
    from .. import chrun
    from cxxheaderparser import simple, dump, gentest
    from cxxheaderparser.parser import CxxParser

    ck = Check("C20", tier)
    ck.encode(simple.parse_file, simple.parse_string, CxxParser.__init__, dump.dumpmain, gentest.nondefault_repr)
    ck.bounds = dict(path_len=4, encoding_len=6, contents=len(CONTENTS))
    ck.assume("open() and sys.stdin are replaced by recording stubs in the traced harness: the codecs and the operating system are trusted",
              "os.fsdecode is replaced by a str/PathLike pass-through in the traced harness (the C call would realise the symbolic path)", "tools are compared on the C++ snippets of /repo/tests (regenerated every run) plus hand-written programs")
    ck.out_of_scope("brepr / pprint dump modes (need black / not machine comparable)", "the codecs themselves")
    pool = chrun.make_pool()
    try:
        tw = chrun.run(__name__, "h_parse_file", [()], timeout=60, globs=dict(TWIN=True), pool=pool)
        chrun.record(ck, tw, "parse_file wiring reachability twin", expect="refuted")
        shards = [(a, b) for a in range(len(CONTENTS)) for b in range(2)]
        res = chrun.run(__name__, "h_parse_file", shards, timeout=(90 if tier == "quick" else 600), pool=pool)
        chrun.record(ck, res, "parse_file: opened once with (path, text mode, encoding E or utf-8-sig); '-' = stdin; result == parse_string",
                     bound="all paths <= 4 chars, all encodings <= 6 chars or None, str and PathLike")
        rmax = 2 if tier == "quick" else 3
        tw = chrun.run(__name__, "h_repr", [(0,)], timeout=60, globs=dict(TWIN=True, REPR_MAX=rmax), pool=pool)
        chrun.record(ck, tw, "compact repr reachability twin", expect="refuted")
        resr = chrun.run(__name__, "h_repr", [(a,) for a in range(len(REPR_CPS) + 1)], timeout=(90 if tier == "quick" else 600), globs=dict(TWIN=False, REPR_MAX=rmax), pool=pool)
        chrun.record(ck, resr, "eval(nondefault_repr(d)) == d for results holding every string over the code-point classes (name, token text, doxygen, include)",
                     bound=f"strings <= {rmax} code points over {len(REPR_CPS)} classes")
    finally:
        pool.shutdown()
    globals()["REPR_MAX"] = rmax
    for shard, args, kw, msg in resr.counterexamples[:3]:
        vals = list(shard) + list(args)
        sv, bad = repr_replay(vals)
        ck.traces += 1
        if bad is None:
            raise HarnessError(f"compact-repr counterexample did not reproduce: {msg}")
        body = ("from vf.props import c20\n" f"c20.REPR_MAX = {rmax}\nsv, bad = c20.repr_replay({vals!r})\nprint(ascii(sv)); print(bad)\nsys.exit(1 if bad else 0)\n")
        ck.violation(bad, ck.write_replay(body), key=dict(kind="tool", what="compact-repr-string"))
    for shard, args, kw, msg in res.counterexamples[:3]:
        path = kw.get("path", args[0] if args else "a")
        enc = kw.get("enc", args[1] if len(args) > 1 else None)
        vals = list(shard) + list(args[2:])
        body = ("from vf.props import c20\nfrom vf import chrun\n" f"chrun.set_prefix({tuple(shard)!r})\n"
                f"ok = c20.h_parse_file({path!r}, {enc!r}, *{list(args[2:])!r})\nprint('parse_file({path!r}, {enc!r}) wiring ok:', ok)\nsys.exit(0 if ok else 1)\n")
        p = ck.write_replay(body)
        ok, out = ck.run_replay(p)
        ck.traces += 1
        if not ok:
            raise HarnessError(f"parse_file counterexample did not reproduce: {msg}\n{out}")
        what = "encoding" if enc is not None else "other"
        ck.violation(f"parse_file({path!r}, encoding={enc!r}): the file is not opened exactly once with that path and encoding / result differs ({msg[:120]})",
                     p, key=dict(kind="parse_file", what=what))
        break
    # tools over the corpus
    t = time.time()
    cor = corpus(tier, ck.seed)
    n_ok = n_skip = 0
    for src in cor:
        r = tool_judge(src)
        ck.traces += 1
        if r == "skip":
            n_skip += 1
            continue
        if r is None:
            n_ok += 1
            continue
        body = ("from vf.props import c20\n" f"r = c20.tool_judge({src!r})\nprint(r)\nsys.exit(1 if r not in (None, 'skip') else 0)\n")
        ck.violation(f"{r} for {src[:80]!r}", ck.write_replay(body), key=dict(kind="tool", what=r[:30]))
        break
    ck.sub("CxxParser+SimpleCxxVisitor == parse_string; eval(nondefault_repr(d)) == d", "replay",
           "holds" if not [v for v in ck.violations if v["key"]["kind"] == "tool"] else "flagged",
           programs=n_ok, unparsable=n_skip, wall_s=round(time.time() - t, 1))
    t = time.time()
    step = 6 if tier == "quick" else 1
    n_cli = 0
    for src in cor[::step]:
        try:
            r = cli_judge(src)
        except SystemExit:
            r = "CLI exited"
        ck.traces += 1
        if r == "skip":
            continue
        n_cli += 1
        if r is not None:
            body = ("from vf.props import c20\n" f"r = c20.cli_judge({src!r})\nprint(r)\nsys.exit(1 if r not in (None, 'skip') else 0)\n")
            ck.violation(f"{r} for {src[:80]!r}", ck.write_replay(body), key=dict(kind="cli"))
            break
    ck.sub("CLI --mode json == dataclasses.asdict(parse_string)", "replay", "holds", programs=n_cli, wall_s=round(time.time() - t, 1))
    for enc, bom in (("utf-8", True), ("utf-8", False), ("latin-1", False), ("utf-16", False), ("cp1252", False)):
        r = encoding_judge(enc, bom)
        ck.traces += 1
        ck.sample(dict(encoding=enc, bom=bom, verdict=r or "ok"))
        if r:
            body = ("from vf.props import c20\n" f"r = c20.encoding_judge({enc!r}, {bom!r})\nprint(r)\nsys.exit(1 if r else 0)\n")
            ck.violation(r, ck.write_replay(body), key=dict(kind="parse_file", what="encoding"))
    r = cli_judge(ENC_TEXT, None, bom=True)
    ck.traces += 1
    if r:
        body = ("from vf.props import c20\n" "r = c20.cli_judge(c20.ENC_TEXT, None, bom=True)\nprint(r)\nsys.exit(1 if r else 0)\n")
        ck.violation("CLI on a UTF-8 file with byte-order mark (default encoding): " + r, ck.write_replay(body), key=dict(kind="cli", what="bom"))
    r = cli_judge(ENC_TEXT, "latin-1")
    if r:
        body = ("from vf.props import c20\n" "r = c20.cli_judge(c20.ENC_TEXT, 'latin-1')\nprint(r)\nsys.exit(1 if r else 0)\n")
        ck.violation("CLI --encoding latin-1: " + r, ck.write_replay(body), key=dict(kind="parse_file", what="encoding"))
    ck.sub("end-to-end encodings (utf-8 with/without BOM, latin-1, utf-16, cp1252; str and pathlib paths; CLI --encoding)", "replay",
           "holds" if not [v for v in ck.violations if v["key"].get("what") == "encoding"] else "flagged")
    ck.extra["explanation"] = "CrossHair decides the open()/stdin wiring of parse_file for all path and encoding strings; tools compared on a regenerated corpus"
    return ck
