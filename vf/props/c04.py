"""C04 - the visitor callback stream is a well-formed, complete traversal.

Engine E-CH.  CrossHair explores block trees (namespace / extern / class spellings) whose declaration slots cycle
through every callback kind, plus the index k of the callback that raises (k chosen among the expected events, so
the path tree is exactly trees x payload rotation x fault position).  Every path runs the real CxxParser with a
recording visitor; assertions: on_parse_start first and once, Dyck nesting over state identities, parent links,
innermost-open-state and declared state kind for every callback, stream == skeleton derived from the tree,
SimpleCxxVisitor result == independent fold of the recorded stream, and for a raising callback: nothing delivered
afterwards and CxxParseError chained to the injected exception.
"""
import typing

from crosshair.tracers import NoTracing

from .. import blocks as B
from ..chrun import Chooser
from ..common import Check, HarnessError
from ..recorder import Recorder, STARTS, ENDS, END_OF

MAXB = 3
MAXD = 2
KINDS = (B.NS, B.EXT, B.CLS, B.CLSVAR, B.TDCLS, B.INLNS, B.NESTNS, B.NS_R, B.NESTNS_R, B.NS_ANON)
TWIN = False
FAULTS = True


class Boom(Exception):
    pass


def state_kinds():
    """callback name -> tuple of state classes its signature declares (from typing hints of the protocol)"""
    from cxxheaderparser import visitor as v, parserstate as ps

    out = {}
    for name in vars(v.CxxVisitor):
        if not name.startswith("on_"):
            continue
        hints = typing.get_type_hints(getattr(v.CxxVisitor, name))
        st = hints.get("state")
        args = typing.get_args(st) or (st,)
        classes = []
        for a in args:
            origin = typing.get_origin(a) or a
            if isinstance(origin, type):
                classes.append(origin)
        out[name] = tuple(classes)
    return out


def fold(events):
    """independent fold of a recorded stream into ParsedData (each payload stored once, in order, in the scope of its state)"""
    from cxxheaderparser import simple as S

    data = None
    scope = {}
    for ev in events:
        n, st, pl = ev.name, ev.state, ev.payload
        if n == "on_parse_start":
            ns = S.NamespaceScope("")
            data = S.ParsedData(ns)
            scope[id(st)] = ns
        elif n == "on_pragma":
            data.pragmas.append(S.Pragma(pl[0]))
        elif n == "on_include":
            data.includes.append(S.Include(pl[0]))
        elif n == "on_extern_block_start":
            scope[id(st)] = scope[id(st.parent)]
        elif n == "on_namespace_start":
            cur = scope[id(st.parent)]
            names = st.namespace.names or [""]
            for nm in names:
                nxt = cur.namespaces.get(nm)
                if nxt is None:
                    nxt = S.NamespaceScope(nm)
                    cur.namespaces[nm] = nxt
                cur = nxt
            cur.inline = st.namespace.inline
            cur.doxygen = st.namespace.doxygen
            scope[id(st)] = cur
        elif n == "on_class_start":
            blk = S.ClassScope(st.class_decl)
            scope[id(st.parent)].classes.append(blk)
            scope[id(st)] = blk
        elif n in ENDS:
            pass
        else:
            target = {
                "on_concept": "concepts", "on_namespace_alias": "ns_alias", "on_forward_decl": "forward_decls",
                "on_template_inst": "template_insts", "on_variable": "variables", "on_function": "functions",
                "on_method_impl": "method_impls", "on_typedef": "typedefs", "on_using_alias": "using_alias",
                "on_using_declaration": "using", "on_enum": "enums", "on_class_field": "fields", "on_class_method": "methods",
                "on_class_friend": "friends", "on_deduction_guide": "deduction_guides",
            }.get(n)
            sc = scope[id(st)]
            if n == "on_using_namespace":
                sc.using_ns.append(S.UsingNamespace("::".join(pl[0])))
            else:
                getattr(sc, target).append(pl[0])
    return data


def wellformed(events, kinds, root_state):
    """None or description"""
    if not events or events[0].name != "on_parse_start":
        return "on_parse_start is not the first callback"
    if sum(1 for e in events if e.name == "on_parse_start") != 1:
        return "on_parse_start delivered more than once"
    if events[0].state is not root_state:
        return "on_parse_start does not carry the root state"
    stack = [root_state]
    for i, ev in enumerate(events[1:], 1):
        allowed = kinds.get(ev.name, ())
        if allowed and not isinstance(ev.state, allowed):
            return f"{ev.name} carries a {type(ev.state).__name__}"
        if ev.name in STARTS:
            if ev.state.parent is not stack[-1]:
                return f"{ev.name} #{i}: state.parent is not the enclosing block's state"
            if any(ev.state is s for s in stack):
                return f"{ev.name} #{i}: state object reused"
            stack.append(ev.state)
        elif ev.name in ENDS:
            if len(stack) < 2 or ev.state is not stack[-1]:
                return f"{ev.name} #{i} does not match the most recent open start"
            stack.pop()
        else:
            if ev.state is not stack[-1]:
                return f"{ev.name} #{i} does not carry the innermost open block's state"
    return None if len(stack) == 1 else f"{len(stack) - 1} block(s) never ended"


def judge(text, root, fault_at):
    from cxxheaderparser.parser import CxxParser
    from cxxheaderparser.errors import CxxParseError
    from cxxheaderparser.simple import parse_string

    exp = B.expected_events(root)
    boom = Boom("injected")

    def hook(name, state, payload, idx):
        if fault_at is not None and idx == fault_at:
            raise boom
        return None

    rec = Recorder(hook)
    raised = None
    p = None
    try:
        p = CxxParser("f.h", text, rec, None)
        root_state = p.state
        p.parse()
    except CxxParseError as e:
        raised = e
    except Boom as e:  # raised by on_parse_start inside the constructor: not parse()
        raised = e
    names = rec.names()
    if fault_at is None:
        if raised is not None:
            return f"parse error {raised}"
        if names != [n for n, _ in exp]:
            return f"stream {names} differs from the tree's skeleton {[n for n, _ in exp]}"
        bad = wellformed(rec.events, KINDS_BY_CB, root_state)
        if bad:
            return bad
        by = {}
        for ev, (n, tag) in zip(rec.events, exp):
            s = by.setdefault(tag, ev.state)
            if s is not ev.state:
                return f"{n}: events of one block carry different state objects"
        want = parse_string(text, filename="f.h")
        got = fold(rec.events)
        if got != want:
            return "SimpleCxxVisitor result differs from the fold of the callback stream"
        return None
    # fault injected at callback #fault_at
    if fault_at == 0:
        return None if isinstance(raised, Boom) else "exception from on_parse_start did not propagate"
    if raised is None:
        return f"callback #{fault_at} raised but parse() returned normally"
    if not isinstance(raised, CxxParseError):
        return f"parse() raised {type(raised).__name__} instead of CxxParseError"
    if raised.__cause__ is not boom:
        return "CxxParseError is not chained (__cause__) to the exception the callback raised"
    if len(names) != fault_at + 1:
        return f"{len(names) - fault_at - 1} callback(s) delivered after callback #{fault_at} raised"
    if names != [n for n, _ in exp][: fault_at + 1]:
        return "stream before the fault differs from the skeleton"
    return None


KINDS_BY_CB = {}


def h_stream(c0: int, c1: int, c2: int, c3: int, c4: int, c5: int, c6: int, c7: int, c8: int, c9: int) -> bool:
    """
    post: _
    """
    with NoTracing():
        if not KINDS_BY_CB:
            KINDS_BY_CB.update(state_kinds())
        ch = Chooser([c0, c1, c2, c3, c4, c5, c6, c7, c8, c9])
        payload = ch.pick(len(B.NS_PAYLOADS))
        root, blocks = B.build(ch, MAXB, MAXD, KINDS, payload=payload)
        text = "\n".join(B.render(root)) + "\n"
        fault = None
        if FAULTS:
            n = len(B.expected_events(root))
            k = ch.pick(n + 1)
            fault = None if k == n else k
        bad = judge(text, root, fault)
        if TWIN:
            return False
        return bad is None


def misplaced_judge(text):
    """ill-formed input: whatever is delivered must be well-formed (kinds, innermost state); CxxParseError is fine"""
    from cxxheaderparser.parser import CxxParser
    from cxxheaderparser.errors import CxxParseError

    if not KINDS_BY_CB:
        KINDS_BY_CB.update(state_kinds())
    rec = Recorder()
    try:
        p = CxxParser("f.h", text, rec, None)
        root_state = p.state
        p.parse()
    except CxxParseError:
        pass
    # nesting may be left open by the error: check every delivered callback individually
    stack = [root_state]
    for i, ev in enumerate(rec.events[1:], 1):
        allowed = KINDS_BY_CB.get(ev.name, ())
        if allowed and not isinstance(ev.state, allowed):
            return f"{ev.name} is delivered with a {type(ev.state).__name__} (its signature declares {[c.__name__ for c in allowed]})"
        if ev.name in STARTS:
            if ev.state.parent is not stack[-1]:
                return f"{ev.name} #{i}: state.parent is not the enclosing block's state"
            stack.append(ev.state)
        elif ev.name in ENDS:
            if len(stack) < 2 or ev.state is not stack[-1]:
                return f"{ev.name} #{i} does not match the most recent open start"
            stack.pop()
        elif ev.state is not stack[-1]:
            return f"{ev.name} #{i} does not carry the innermost open block's state"
    return None


MISPLACED_WRAPS = ["struct S {{ int a; {m} int b; }};", "namespace N {{ class C {{ struct I {{ {m} }}; }}; }}", "union U {{ {m} }};",
                   "template <typename T> class K {{ public: {m} }};"]


def h_misplaced(c0: int, c1: int) -> bool:
    """
    post: _
    """
    with NoTracing():
        ch = Chooser([c0, c1])
        wrap = MISPLACED_WRAPS[ch.pick(len(MISPLACED_WRAPS))]
        m = B.CLS_MISPLACED[ch.pick(len(B.CLS_MISPLACED))].format(n="q")
        bad = misplaced_judge(wrap.format(m=m))
        if TWIN:
            return False
        return bad is None


def misplaced_replay(vals):
    ch = Chooser(list(vals), prefix=())
    wrap = MISPLACED_WRAPS[ch.pick(len(MISPLACED_WRAPS))]
    m = B.CLS_MISPLACED[ch.pick(len(B.CLS_MISPLACED))].format(n="q")
    text = wrap.format(m=m)
    return text, misplaced_judge(text)


def replay(vals, faults=True):
    if not KINDS_BY_CB:
        KINDS_BY_CB.update(state_kinds())
    ch = Chooser(list(vals), prefix=())
    payload = ch.pick(len(B.NS_PAYLOADS))
    root, blocks = B.build(ch, MAXB, MAXD, KINDS, payload=payload)
    text = "\n".join(B.render(root)) + "\n"
    fault = None
    if faults:
        n = len(B.expected_events(root))
        k = ch.pick(n + 1)
        fault = None if k == n else k
    return text, fault, judge(text, root, fault)


def run(tier):
    from .. import chrun
    from cxxheaderparser.parser import CxxParser
    from cxxheaderparser import simple, visitor, parserstate

    ck = Check("C04", tier)
    maxb, maxd = (2, 2) if tier == "quick" else (3, 3)
    globs = dict(MAXB=maxb, MAXD=maxd)
    ck.bounds = dict(max_blocks=maxb, max_depth=maxd, block_kinds=[B.KIND_NAMES[k] for k in KINDS], payload_rotations=len(B.NS_PAYLOADS),
                     fault_positions="every callback index of every program, plus no fault")
    ck.encode(CxxParser._setup_state, CxxParser._pop_state, CxxParser._on_block_end, CxxParser.parse, simple.SimpleCxxVisitor,
              parserstate.NamespaceBlockState, parserstate.ClassBlockState, parserstate.ExternBlockState, visitor.CxxVisitor)
    ck.assume("programs come from vf/blocks.py: declaration slots cycle through every callback kind of the protocol (namespace and class payload tables)",
              "callbacks raise an ordinary Exception subclass; on_parse_start is delivered by the constructor, so a fault there propagates unwrapped",
              "the parser runs concretely (NoTracing) once a path's choices are fixed: the solver contributes the exhaustive, feasibility-checked exploration and the completeness verdict")
    ck.out_of_scope(f"trees with more than {maxb} blocks or deeper than {maxd}", "callbacks raising BaseException")
    pool = chrun.make_pool()
    try:
        tw = chrun.run(__name__, "h_stream", [(0, len(KINDS))], timeout=60, globs=dict(globs, TWIN=True), pool=pool)
        chrun.record(ck, tw, "reachability twin", expect="refuted")
        # thorough: the larger trees take every fourth payload rotation (1.15 million paths with all 18); the quick-size trees take all
        rots = list(range(len(B.NS_PAYLOADS))) if tier == "quick" else list(range(0, len(B.NS_PAYLOADS), 4))
        shards = [(p, a) for p in rots for a in range(len(KINDS) + 1)]
        res = chrun.run(__name__, "h_stream", shards, timeout=(150 if tier == "quick" else 1500), globs=globs, pool=pool)
        chrun.record(ck, res, "stream well-formedness, fold equality and fault injection over all trees x payload rotations x fault positions",
                     bound=f"blocks<={maxb} depth<={maxd}, {len(rots)} of {len(B.NS_PAYLOADS)} payload rotations")
        if tier != "quick":
            shards = [(p, a) for p in range(len(B.NS_PAYLOADS)) for a in range(len(KINDS) + 1)]
            res_s = chrun.run(__name__, "h_stream", shards, timeout=600, globs=dict(globs, MAXB=2, MAXD=2), pool=pool)
            chrun.record(ck, res_s, "the same over the quick-size trees with all payload rotations", bound=f"blocks<=2 depth<=2, {len(B.NS_PAYLOADS)} rotations")
            if res_s.counterexamples and not res.counterexamples:
                res, globs = res_s, dict(globs, MAXB=2, MAXD=2)
        tw = chrun.run(__name__, "h_misplaced", [(0, 0)], timeout=60, globs=dict(TWIN=True), pool=pool)
        chrun.record(ck, tw, "misplaced-construct reachability twin", expect="refuted")
        resm = chrun.run(__name__, "h_misplaced", [(a,) for a in range(len(MISPLACED_WRAPS))], timeout=120, pool=pool)
        chrun.record(ck, resm, "namespace-scope constructs written inside classes: every delivered callback still carries a state of its declared kind",
                     bound=f"{len(MISPLACED_WRAPS)} class contexts x {len(B.CLS_MISPLACED)} constructs")
    finally:
        pool.shutdown()
    for shard, args, kw, msg in resm.counterexamples[:3]:
        text, bad = misplaced_replay(list(shard) + list(args))
        ck.traces += 1
        if bad is None:
            raise HarnessError(f"misplaced counterexample did not reproduce: {msg}")
        body = ("from vf.props import c04\n" f"text, bad = c04.misplaced_replay({list(shard) + list(args)!r})\nprint(text); print(bad)\nsys.exit(1 if bad else 0)\n")
        ck.violation(f"{bad} for {text!r}", ck.write_replay(body), key=dict(kind="misplaced", what=bad[:40]))
    globals().update(globs)
    seen = set()
    for shard, args, kw, msg in res.counterexamples:
        text, fault, bad = replay(list(shard) + list(args))
        ck.traces += 1
        if bad is None:
            raise HarnessError(f"counterexample did not reproduce: {msg}\n{text}")
        k = bad[:50]
        if k in seen:
            continue
        seen.add(k)
        body = ("from vf.props import c04\n" f"c04.MAXB, c04.MAXD = {maxb}, {maxd}\ntext, fault, bad = c04.replay({list(shard) + list(args)!r})\n"
                "print(text); print('raising callback index:', fault); print('->', bad)\nsys.exit(1 if bad else 0)\n")
        ck.violation(f"{bad} (fault at callback {fault})", ck.write_replay(body), key=dict(kind="stream", what=k))
    for vals in ([3, 0, 7, 7, 99], [9, 2, 3, 7, 7, 7, 4], [17, 6, 7, 7, 0]):
        try:
            text, fault, bad = replay(vals + [99] * 8)
            ck.sample(dict(source=text, raising_callback=fault, verdict=bad or "ok"))
            ck.traces += 1
        except Exception:  # noqa
            pass
    ck.extra["explanation"] = "CrossHair path exploration of (block tree, payload rotation, raising callback index); each path runs the real parser with a recording visitor"
    return ck
