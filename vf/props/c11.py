"""C11 - documentation comments attach to the declaration they adjoin, and only to it.

Kernel (E-CH): the real get_doxygen / get_doxygen_after / _extract_comments of LexerTokenStream over a stub PLY
lexer, for all token buffers up to a bound over {newline, whitespace, '///' doc, '/** */' doc (with / without its
line end), plain comments, a real token}, against a reference written from the statement.
Hand-over (E-CH): all ordered pairs of declaration kinds x arrangements (doc above, two-line doc, block doc,
detached doc, trailing doc, plain comment, plain comment between doc and declaration, doc before an access
specifier / closing brace, nothing) with uniquely worded texts, in namespace and class context.  Three-valued
oracle: per declaration 'must be X' / 'must be None' / 'unspecified'; universal clauses: no text delivered twice,
never to a second declarator, nothing across a blank line, an access specifier or a block boundary.
"""
import dataclasses

from crosshair.tracers import NoTracing

from ..chrun import Chooser
from ..common import Check, HarnessError

TWIN = False

# ---------------------------------------------------------------------------------------------
# hand-over
# ---------------------------------------------------------------------------------------------

NS_KINDS = {
    "var": ("int {n};", True), "var2": ("int {n}, {n}second;", True), "fn": ("void {n}();", False), "cls": ("struct {n} {{ int m{n}; }};", False),
    "enum": ("enum {n} {{ {n}A }};", False), "using": ("using {n} = int;", False), "ns": ("namespace {n} {{ int q{n}; }}", False),
    "tmpl": ("template <typename T> T {n}(T);", False), "attr": ("[[nodiscard]] int {n}();", False), "fwd": ("struct {n};", False),
    "init": ("int {n} = 3;", True), "alignas": ("alignas(16) char {n}[64];", True), "fnbody": ("inline int {n}() {{ return 1; }}", False), "usingdecl": ("using std::{n};", False),
}
CLS_KINDS = {
    "field": ("int {n};", True), "field2": ("int {n}, {n}second;", True), "method": ("void {n}();", False), "nested": ("struct {n} {{ int m{n}; }};", False),
    "enum": ("enum {n} {{ {n}A }};", False), "using": ("using {n} = int;", False), "ctor": ("K{n}x();", None), "static": ("static int {n};", True),
    "bitfield": ("int {n} : 3;", True), "alignas": ("alignas(8) int {n};", True), "methbody": ("int {n}() const {{ return 1; }}", False),
}
ENUM_KINDS = {"e": ("{n},", True), "eval": ("{n} = 1 + 2,", True), "elast": ("{n}", True), "elastval": ("{n} = 4", True), "eattr": ("{n} [[deprecated]],", True)}
ARRS = ["above", "above2", "block", "blockml", "detached", "trailing", "plain", "plain_between", "none", "bang", "above_barrier", "detached_block", "trailing_block", "plain_trailing", "plain_trailing_block"]
TRAIL = ("trailing", "trailing_block")


def arrange(arr, decl, i, barrier):
    t = f"DOC{i}"
    if arr == "above":
        return f"/// {t}\n{decl}\n"
    if arr == "above2":
        return f"/// {t} one\n/// {t} two\n{decl}\n"
    if arr == "block":
        return f"/** {t} */\n{decl}\n"
    if arr == "blockml":
        return f"/**\n * {t}\n */\n{decl}\n"
    if arr == "bang":
        return f"//! {t}\n{decl}\n"
    if arr == "detached":
        return f"/// {t}\n\n{decl}\n"
    if arr == "trailing":
        return f"{decl} ///< {t}\n"
    if arr == "trailing_block":
        return f"{decl} /**< {t} */\n"
    if arr == "plain_trailing":
        return f"{decl} // plain{i}\n"
    if arr == "plain_trailing_block":
        return f"{decl} /* plain{i} */\n"
    if arr == "detached_block":
        return f"/** {t} */\n\n{decl}\n"
    if arr == "plain":
        return f"// {t}\n{decl}\n"
    if arr == "plain_between":
        return f"/// {t}\n// plain{i}\n{decl}\n"
    if arr == "above_barrier":
        return f"/// {t}\n{barrier}\n{decl}\n"
    return f"{decl}\n"


def expected(arr, var_like, i):
    """('must', text) | ('none',) | ('unspec',)  for a declaration with its own arrangement, ignoring its neighbour"""
    t = f"DOC{i}"
    if arr == "above":
        return ("must", f"/// {t}")
    if arr == "above2":
        return ("must", f"/// {t} one\n/// {t} two")
    if arr == "block":
        return ("must", f"/** {t} */")
    if arr == "bang":
        return ("must", f"//! {t}")
    if arr == "blockml":
        return ("contains", t)
    if arr == "plain_between":
        return ("must", f"/// {t}")
    if arr == "trailing":
        return ("must", f"///< {t}") if var_like else ("none",)
    if arr == "trailing_block":
        return ("must", f"/**< {t} */") if var_like else ("none",)
    return ("none",)


def collect_docs(data):
    """name -> doxygen for every object that has a doxygen field (+ namespaces); also 'second declarators'"""
    out = {}

    def walk(o):
        if dataclasses.is_dataclass(o) and not isinstance(o, type):
            for f in dataclasses.fields(o):
                walk(getattr(o, f.name))
            if hasattr(o, "doxygen"):
                key = None
                for attr in ("name", "typename", "alias"):
                    if hasattr(o, attr):
                        v = getattr(o, attr)
                        if isinstance(v, str):
                            key = v
                        elif v is not None and hasattr(v, "segments"):
                            key = getattr(v.segments[-1], "name", None)
                        break
                if key is not None:
                    if type(o).__name__ == "Method" and key.startswith("K"):
                        key = "ctor:" + key
                    out.setdefault(key, []).append(o.doxygen)
        elif isinstance(o, list):
            for x in o:
                walk(x)
        elif isinstance(o, dict):
            for k, x in o.items():
                walk(x)

    walk(data)
    return out


def build_pair(ch):
    ctx = ch.pick(3)  # 0 namespace scope, 1 class body, 2 enumerator list
    kinds = [NS_KINDS, CLS_KINDS, ENUM_KINDS][ctx]
    names = sorted(kinds)
    k1 = names[ch.pick(len(names))]
    a1 = ARRS[ch.pick(len(ARRS))]
    k2 = names[ch.pick(len(names))]
    a2 = ARRS[ch.pick(len(ARRS))]
    return ctx, k1, a1, k2, a2


def render_pair(ctx, k1, a1, k2, a2):
    kinds = [NS_KINDS, CLS_KINDS, ENUM_KINDS][ctx]
    d1 = kinds[k1][0].format(n="X1")
    d2 = kinds[k2][0].format(n="X2")
    barrier = "public:" if ctx else "namespace B {} "
    body = arrange(a1, d1, 1, barrier) + arrange(a2, d2, 2, barrier)
    if ctx == 1:
        return "struct KX1x {\n" + body.replace("KX1x", "KX1x").replace("KX2x", "KX1x") + "};\n"
    if ctx == 2:
        return "enum EN {\n" + body + "};\n"
    return body


def pair_judge(ctx, k1, a1, k2, a2):
    from cxxheaderparser.simple import parse_string
    from cxxheaderparser.errors import CxxParseError

    kinds = [NS_KINDS, CLS_KINDS, ENUM_KINDS][ctx]
    if ctx == 2 and (k1.startswith("elast") or "above_barrier" in (a1, a2)):
        return None  # a last enumerator cannot be followed by another one; no barrier construct inside an enumerator list
    src = render_pair(ctx, k1, a1, k2, a2)
    try:
        d = parse_string(src)
    except CxxParseError as e:
        return f"parse error: {e}"
    docs = collect_docs(d)
    v1, v2 = kinds[k1][1], kinds[k2][1]
    e1, e2 = expected(a1, v1, 1), expected(a2, v2, 2)
    # neighbour effects the statement leaves open
    if a1 in TRAIL:
        if v1 and a2 in ("above", "above2", "block", "blockml", "bang", "plain_between", "above_barrier", "detached", "detached_block"):
            e1 = ("unspec",)   # doc lines that directly continue a trailing comment belong to it
            e2 = ("unspec",) if a2 not in ("detached", "detached_block") else e2
        elif v1 and a2 in ("plain",):
            e1 = ("unspec",)
        elif not v1:
            e2 = ("unspec",) if a2 in ("none", "plain", "above", "above2", "block", "blockml", "bang", "plain_between", "trailing", "trailing_block", "plain_trailing", "plain_trailing_block") else e2
    if a1 in TRAIL and v1 is None:
        e1 = ("unspec",)
    if a2 in TRAIL and v2 is None:
        e2 = ("unspec",)
    for i, kname, exp in ((1, k1, e1), (2, k2, e2)):
        nm = "ctor:KX1x" if kname == "ctor" else f"X{i}"
        got_list = docs.get(nm)
        if kname == "ctor" and got_list:
            both = (k1 == "ctor" and k2 == "ctor")
            got_list = got_list[-1:] if (i == 2 and both) else got_list[:1]
        if got_list is None:
            return f"declaration {nm} not found in the result"
        got = got_list[0] if kname != "ns" else got_list[-1]
        if exp[0] == "must" and got != exp[1]:
            return f"{nm} ({kname}, {'arr ' + (a1 if i == 1 else a2)}): doxygen {got!r}, must be {exp[1]!r}"
        if exp[0] == "contains" and (got is None or exp[1] not in got or not got.startswith("/**")):
            return f"{nm} ({kname}): doxygen {got!r}, must contain {exp[1]!r}"
        if exp[0] == "none" and got is not None:
            return f"{nm} ({kname}, {'arr ' + (a1 if i == 1 else a2)}): doxygen {got!r}, must be None"
    # universal clauses
    for i in (1, 2):
        holders = [k for k, vs in docs.items() for v in vs if v and f"DOC{i}" in v]
        if len(holders) > 1:
            return f"text DOC{i} delivered to several declarations: {holders}"
    for nm, vs in docs.items():
        if nm.endswith("second") and any(v is not None for v in vs):
            return f"second declarator {nm} carries doxygen {vs}"
        if nm.startswith(("m", "q")) and any(v is not None for v in vs):
            return f"inner declaration {nm} carries doxygen {vs}"
    # plain comments contribute nothing
    for nm, vs in docs.items():
        for v in vs:
            if v and "plain" in v:
                return f"{nm}: a non-documentation comment contributed text: {v!r}"
    return None


def h_pair(c0: int, c1: int, c2: int, c3: int, c4: int) -> bool:
    """
    post: _
    """
    with NoTracing():
        ch = Chooser([c0, c1, c2, c3, c4])
        args = build_pair(ch)
        if TWIN:
            return False
        bad = pair_judge(*args)
        return bad is None or known_class(args, bad) in EXCUSE


EXCUSE = ()


def known_class(args, bad):
    """D18: get_doxygen_after scans past real tokens on the (logical) line: shapes where a trailing comment follows a one-line
    block, or follows a multi-declarator line"""
    ctx, k1, a1, k2, a2 = args
    blockish = ("cls", "ns", "nested")
    if (k1 in blockish and a1 in TRAIL) or (k2 in blockish and a2 in TRAIL):
        return "D18a"
    if k1 in ("var2", "field2") and a1 in TRAIL + ("plain_trailing", "plain_trailing_block") and "DOC1" not in bad:
        return "D18b"  # the listed defect concerns what the SECOND declarator's scan does to the next declaration (DOC2); X1's own doc must be right  # any comment after the declarators ends their line inside the token; the second declarator's scan starts in the next line
    if k2 in ("var2", "field2") and a2 in TRAIL and "DOC1" not in bad and not bad.startswith("X2 ("):
        return "D18b"
    return "other"


def pair_replay(vals):
    ch = Chooser(list(vals), prefix=())
    args = build_pair(ch)
    return args, render_pair(*args), pair_judge(*args)


# ---------------------------------------------------------------------------------------------
# kernel
# ---------------------------------------------------------------------------------------------

K_KINDS = ["NL", "WS", "DOC", "DOCB", "DOCBN", "PLAIN", "PLAINB", "TOK"]
K_MAX = 5


def k_tokens(kinds):
    from ..stublex import RawTok

    out = []
    line = 1
    n = 0
    for k in kinds:
        n += 1
        if k == "NL":
            out.append(("NEWLINE", "\n", line, 0, line + 1)); line += 1
        elif k == "WS":
            out.append(("WHITESPACE", " ", line, 0, line))
        elif k == "DOC":
            out.append(("COMMENT_SINGLELINE", f"/// d{n}\n", line, 0, line + 1)); line += 1
        elif k == "DOCB":
            out.append(("COMMENT_MULTILINE", f"/** b{n} */", line, 0, line))
        elif k == "DOCBN":
            out.append(("COMMENT_MULTILINE", f"/** b{n} */\n", line, 0, line + 1)); line += 1
        elif k == "PLAIN":
            out.append(("COMMENT_SINGLELINE", f"// p{n}\n", line, 0, line + 1)); line += 1
        elif k == "PLAINB":
            out.append(("COMMENT_MULTILINE", f"/* p{n} */", line, 0, line))
        else:
            out.append(("NAME", f"x{n}", line, 0, line))
    return out


def k_reference(kinds):
    """doc text get_doxygen must return at the first real token: the documentation comments of the comment block that
    immediately precedes it (a NEWLINE token = blank line ends the block); None if there is none"""
    block = []
    n = 0
    for k in kinds:
        n += 1
        if k == "TOK":
            break
        if k == "NL":
            block = []
        elif k == "DOC":
            block.append(f"/// d{n}")
        elif k in ("DOCB", "DOCBN"):
            block.append(f"/** b{n} */")
    return block


def k_judge(kinds):
    from collections import deque
    from cxxheaderparser.lexer import LexerTokenStream
    from .. import stublex

    ls = LexerTokenStream.__new__(LexerTokenStream)
    ls._lex = stublex.StubPly(k_tokens(kinds), "f.h", list(range(40)))
    ls.tokbuf = deque()
    got = ls.get_doxygen()
    want = k_reference(kinds)
    styles = {w[:3] for w in want}
    if len(styles) > 1:
        cls = "mixed-style block"
    else:
        cls = "other"
    want_text = "\n".join(want) if want else None
    # the next token handed out must be the first real token (nothing lost)
    nxt = ls.token_eof_ok()
    first = next((f"x{i + 1}" for i, k in enumerate(kinds) if k == "TOK"), None)
    if (nxt.value if nxt is not None else None) != first:
        return "other", f"after get_doxygen the next token is {nxt!r}, expected {first!r}"
    if got != want_text:
        return cls, f"get_doxygen returned {got!r}, the preceding block is {want_text!r}"
    return None, None


def h_kernel(c0: int, c1: int, c2: int, c3: int, c4: int, c5: int, c6: int) -> bool:
    """
    post: _
    """
    with NoTracing():
        ch = Chooser([c0, c1, c2, c3, c4, c5, c6])
        kinds = []
        while len(kinds) < K_MAX:
            k = ch.pick(len(K_KINDS) + 1)
            if k == len(K_KINDS):
                break
            kinds.append(K_KINDS[k])
        if TWIN:
            return False
        cls, bad = k_judge(kinds)
        return bad is None or cls in EXCUSE


def k_replay(vals):
    ch = Chooser(list(vals), prefix=())
    kinds = []
    while len(kinds) < K_MAX:
        k = ch.pick(len(K_KINDS) + 1)
        if k == len(K_KINDS):
            break
        kinds.append(K_KINDS[k])
    return kinds, k_judge(kinds)


def run(tier):
    from .. import chrun
    from cxxheaderparser.lexer import LexerTokenStream
    from cxxheaderparser.parser import CxxParser

    ck = Check("C11", tier)
    kmax = 5 if tier == "quick" else 6
    ck.encode(LexerTokenStream.get_doxygen, LexerTokenStream.get_doxygen_after, LexerTokenStream._extract_comments, CxxParser.parse,
              CxxParser._parse_declarations, CxxParser._parse_field, CxxParser._parse_enumerator_list)
    ck.bounds = dict(kernel_tokens=kmax, kernel_kinds=K_KINDS, pair_kinds=dict(namespace=sorted(NS_KINDS), klass=sorted(CLS_KINDS)), arrangements=ARRS)
    ck.assume("three-valued oracle: cases the statement leaves open are 'unspecified' and not asserted (a trailing comment followed directly by documentation lines; "
              "a '///<' after a non-variable declaration, which immediately precedes the next declaration)",
              "the exact text normalisation of multi-line /** */ blocks is not asserted (must start with /** and contain the unique word)")
    ck.out_of_scope("triples of declarations", "comment wording other than the unique marker words")
    excuse = tuple(e["match"]["cls"] for e in ck.known if e.get("match", {}).get("kind") in ("doc-kernel", "doc-pair"))
    pool = chrun.make_pool()
    try:
        tw = chrun.run(__name__, "h_kernel", [(7,)], timeout=60, globs=dict(TWIN=True, K_MAX=kmax), pool=pool)
        chrun.record(ck, tw, "kernel reachability twin", expect="refuted")
        shards = [(a, b) for a in range(len(K_KINDS)) for b in range(len(K_KINDS) + 1)] + [(len(K_KINDS),)]
        rk = chrun.run(__name__, "h_kernel", shards, timeout=(150 if tier == "quick" else 1200), globs=dict(K_MAX=kmax, EXCUSE=excuse), pool=pool)
        chrun.record(ck, rk, "get_doxygen over all token buffers vs the statement's reference", bound=f"<= {kmax} tokens over {len(K_KINDS)} kinds")
        tw = chrun.run(__name__, "h_pair", [(0, 0)], timeout=60, globs=dict(TWIN=True), pool=pool)
        chrun.record(ck, tw, "hand-over reachability twin", expect="refuted")
        shards = [(c, k) for c in range(3) for k in range(max(len(NS_KINDS), len(CLS_KINDS), len(ENUM_KINDS)))]
        rp = chrun.run(__name__, "h_pair", shards, timeout=(200 if tier == "quick" else 900), globs=dict(EXCUSE=excuse), pool=pool)
        chrun.record(ck, rp, "hand-over: all ordered pairs of declaration kinds x arrangements, namespace and class context",
                     bound=f"{len(NS_KINDS)}/{len(CLS_KINDS)} kinds x {len(ARRS)} arrangements, squared")
    finally:
        pool.shutdown()
    globals()["K_MAX"] = kmax
    seen = set()
    for shard, args, kw, msg in rk.counterexamples:
        kinds, (cls, bad) = k_replay(list(shard) + list(args))
        ck.traces += 1
        if bad is None:
            raise HarnessError(f"kernel counterexample did not reproduce: {msg}")
        if cls in seen:
            continue
        seen.add(cls)
        body = ("from vf.props import c11\n" f"c11.K_MAX = {kmax}\nkinds, (cls, bad) = c11.k_replay({list(shard) + list(args)!r})\nprint(kinds, cls); print(bad)\nsys.exit(1 if bad else 0)\n")
        ck.violation(f"token buffer {kinds}: {bad}", ck.write_replay(body), key=dict(kind="doc-kernel", cls=cls))
    for e in ck.known:
        if e.get("match", {}).get("kind") == "doc-kernel" and e["match"].get("cls") == "mixed-style block":
            cls, bad = k_judge(["DOC", "DOCBN", "TOK"])
            if bad is not None:
                ck.known_hit(e, f"'/// d1' + '/** b2 */' + declaration: {bad}")
    seen = set()
    for shard, args, kw, msg in rp.counterexamples:
        a, src, bad = pair_replay(list(shard) + list(args))
        ck.traces += 1
        if bad is None:
            raise HarnessError(f"hand-over counterexample did not reproduce: {msg}\n{src}")
        sig = bad[:50]
        if sig in seen or len(seen) > 12:
            continue
        seen.add(sig)
        body = ("from vf.props import c11\n" f"a, src, bad = c11.pair_replay({list(shard) + list(args)!r})\nprint(src); print(bad)\nsys.exit(1 if bad else 0)\n")
        ck.violation(f"{bad}\n  source: {src!r}", ck.write_replay(body), key=dict(kind="doc-pair", cls=known_class(a, bad), what=sig))
    for e in ck.known:
        m = e.get("match", {})
        if m.get("kind") != "doc-pair":
            continue
        args = (0, "cls", "trailing", "var", "none") if m["cls"] == "D18a" else (1, "field2", "trailing", "bitfield", "trailing")
        bad = pair_judge(*args)
        ck.traces += 1
        if bad is not None:
            ck.known_hit(e, f"{render_pair(*args)!r}: {bad}")
    a, src, bad = pair_replay([0, 11, 0, 3, 5, 0])
    ck.sample(dict(source=src, verdict=bad or "ok"))
    a, src, bad = pair_replay([1, 3, 5, 6, 10, 0])
    ck.sample(dict(source=src, verdict=bad or "ok"))
    ck.extra["explanation"] = "CrossHair explores all doc-comment token buffers (kernel) and all ordered pairs of declaration kinds x arrangements (hand-over) on the real code"
    return ck
