"""C13 - skipped regions are skipped exactly.

Engine E-CH.  For every skippable region (function / method / constructor body, ctor-initializer arguments,
[[ ]] / __attribute__ / __declspec / alignas arguments, static_assert) CrossHair explores the region content: all
token strings up to a length bound over an alphabet of brackets, angle brackets, literals that contain brackets,
keywords, `public`, `:`, `;` ... .  A string that is bracket-balanced by an independent reference (round, square and
curly brackets nest; `<` `>` are ordinary tokens, as in C++'s balanced-token-seq) must leave the result - including
the declarations that follow - identical to the empty-region parse.
"""
from crosshair.tracers import NoTracing

from ..chrun import Chooser
from ..common import Check, HarnessError

TWIN = False
MAXTOK = 4

STR_ATOM = '"}{)\\"(]["'  # one string literal: brackets around an escaped quote
ATOMS_FULL = ["x", "<", ">", ";", ",", "public", ":", STR_ATOM, "'{'", "'\\\\'", "int", "::", "=", "struct", "0", "->", "template", "private:"]
ATOMS_CORE = ["x", "<", ">", ";", STR_ATOM, ","]
ATOMS = ATOMS_FULL
GROUPS = [("(", ")"), ("[", "]"), ("{", "}")]
ALPHA = ATOMS_FULL + ["(", "[", "{"]
# per region: (prefix, suffix, which closers delimit it, tokens that may not appear at depth 0 for C++ reasons)
REGIONS = [
    ("fn-body", "void f() {", "} int after; void g();", "{}"),
    ("method-body", "struct S { void m() const {", "} int after; void n(); }; int tail;", "{}"),
    ("ctor-body", "struct S { S() : a(1), b{2} {", "} int after; }; int tail;", "{}"),
    ("ctor-init-paren", "struct S { S() : a(", "), b{2} { } int after; }; int tail;", "()"),
    ("ctor-init-brace", "struct S { S() : a(1), b{", "} { } int after; }; int tail;", "{}"),
    ("ctor-init-pack", "template <typename... B> struct S : B... { S(B... bs) : B(", ")... { } int after; }; int tail;", "()"),
    ("ctor-init-pack-then-more", "template <typename... B> struct S : B... { S(B... bs) : B(", ")..., a(1), c{2} { } int after; }; int tail;", "()"),
    ("ctor-init-brace-pack", "template <typename... B> struct S : B... { S(B... bs) : a(1), B{", "}... { } int after; }; int tail;", "{}"),
    ("attr-args", "[[gnu::thing(", ")]] int after; int tail;", "()"),
    ("attr-list", "[[ a ,", "]] int after; int tail;", "[[]]"),
    ("gcc-attribute", "__attribute__((thing(", "))) int after; int tail;", "()"),
    ("declspec", "__declspec(", ") int after; int tail;", "()"),
    ("alignas", "alignas(", ") int after; int tail;", "()"),
    ("static-assert", "static_assert(", "); int after; int tail;", "()"),
    ("class-static-assert", "struct S { static_assert(", "); int after; }; int tail;", "()"),
    ("operator-body", "struct S { operator bool() const {", "} bool operator()(int) {", "{}"),
    ("template-fn-body", "template <typename T> T tf(T t) {", "} template <typename U> void ug();", "{}"),
]


def balanced(toks):
    """reference: (), [], {} nest properly; < > and everything else are ordinary tokens"""
    stack = []
    pairs = {")": "(", "]": "[", "}": "{"}
    for t in toks:
        if t in "([{":
            stack.append(t)
        elif t in pairs:
            if not stack or stack[-1] != pairs[t]:
                return False
            stack.pop()
    return not stack


def render(region, toks):
    name, pre, suf, _ = region
    if name == "operator-body":
        suf = "} bool operator()(int) { return true; } int after; }; int tail;"
    return pre + " " + " ".join(toks) + " " + suf


def judge(region, toks):
    from cxxheaderparser.simple import parse_string
    from cxxheaderparser.errors import CxxParseError

    try:
        base = parse_string(render(region, []))
    except CxxParseError as e:
        return f"the program with an empty region does not parse: {e}"
    if " after" in render(region, []) and "name='after'" not in repr(base):
        return "the declaration that follows the (empty) region is missing from the result"  # the comparison below is relational: anchor it
    try:
        got = parse_string(render(region, toks))
    except CxxParseError as e:
        return f"parse error: {e}"
    if got != base:
        return "result differs from the empty-region parse"
    return None


def admissible(region, toks):
    """soups the property quantifies over for this region: bracket-balanced; inside `[[ ]]` the token `]` `]` pair would close it"""
    if not balanced(toks):
        return False
    return True


def gen_soup(ch, budget, out):
    """balanced by construction: element := atom | ( soup ) | [ soup ] | { soup }; returns remaining budget"""
    while budget > 0:
        n = len(ATOMS) + (len(GROUPS) if budget >= 2 else 0)
        k = ch.pick(n + 1)
        if k == n:
            break
        if k < len(ATOMS):
            out.append(ATOMS[k])
            budget -= 1
        else:
            o, c = GROUPS[k - len(ATOMS)]
            out.append(o)
            budget = gen_soup(ch, budget - 2, out)
            out.append(c)
    return budget


def build(ch):
    region = REGIONS[ch.pick(len(REGIONS))]
    toks = []
    gen_soup(ch, MAXTOK, toks)
    toks = [t for tt in toks for t in tt.split()] if any(" " in t for t in toks) else toks
    return region, toks


def h_soup(c0: int, c1: int, c2: int, c3: int, c4: int, c5: int, c6: int, c7: int, c8: int) -> bool:
    """
    post: _
    """
    with NoTracing():
        ch = Chooser([c0, c1, c2, c3, c4, c5, c6, c7, c8])
        region, toks = build(ch)
        if not admissible(region, toks):
            return True
        if TWIN:
            return False
        bad = judge(region, toks)
        return bad is None or known_angle(region, toks)


EXCUSE_ANGLE = ()  # region names for which the angle-bracket heuristic failure is a listed known finding


def known_angle(region, toks):
    """known finding D15: the failure disappears when the `<` / `>` tokens are removed (angle-bracket heuristic)"""
    if not EXCUSE_ANGLE or region[0] not in EXCUSE_ANGLE:
        return False
    if not d15_trigger(toks):
        return False
    rest = [t for t in toks if t not in "<>"]
    return judge(region, rest) is None


def d15_trigger(toks):
    """the listed defect's mechanism, stated on the content alone: a '>' arrives while the innermost open bracket is a round /
    square / curly one AND a '<' is still pending further out - the pinned code then pops back to that '<' and forgets the
    brackets opened in between.  Content without this shape is not covered by the known finding."""
    m = {"(": ")", "[": "]", "{": "}", "<": ">"}
    stack = []
    for t in toks:
        if t in m:
            stack.append(m[t])
        elif t in (")", "]", "}", ">"):
            if not stack:
                continue  # a '>' at depth 0 of the content: ordinary token
            exp = stack.pop()
            if t == exp:
                continue
            if t == ">":
                if ">" in stack:
                    return True
                stack.append(exp)
                continue
            while exp == ">" and stack:  # a real closer: pending '<' were comparisons
                exp = stack.pop()
    return False


def replay(vals):
    ch = Chooser(list(vals), prefix=())
    region, toks = build(ch)
    if not admissible(region, toks):
        return region, toks, None
    return region, toks, judge(region, toks)


def run(tier):
    from .. import chrun
    from cxxheaderparser.parser import CxxParser

    ck = Check("C13", tier)
    plans = [("full", 2), ("core", 4)] if tier == "quick" else [("full", 3), ("core", 5)]
    maxtok = max(b_ for _, b_ in plans)
    ck.encode(CxxParser._discard_contents, CxxParser._discard_ctor_initializer, CxxParser._consume_balanced_tokens, CxxParser._consume_attribute_specifier_seq,
              CxxParser._consume_gcc_attribute, CxxParser._consume_declspec, CxxParser._consume_static_assert, CxxParser._parse_fn_end, CxxParser._parse_method_end)
    ck.bounds = dict(regions=[r[0] for r in REGIONS], plans=[dict(atoms=(ATOMS_FULL if a_ == "full" else ATOMS_CORE), groups=["( )", "[ ]", "{ }"], max_tokens=b_) for a_, b_ in plans])
    ck.assume("region content is rendered with a blank between tokens (adjacent `] ]` is therefore two tokens; the `]]` fusion is finding D5 of C14)",
              "soups are bracket-balanced by construction: element := atom | ( soup ) | [ soup ] | { soup }; `<` and `>` are ordinary atoms (C++ balanced-token-seq)")
    ck.out_of_scope(f"soups longer than {maxtok} tokens", "tokens outside the alphabets")
    known_d15 = tuple(e["match"]["region"] for e in ck.known if e["id"].startswith("D15"))
    pool = chrun.make_pool()
    cex = []
    try:
        for aname, budget in plans:
            atoms = ATOMS_FULL if aname == "full" else ATOMS_CORE
            g = dict(MAXTOK=budget, EXCUSE_ANGLE=known_d15, ATOMS=atoms)
            tw = chrun.run(__name__, "h_soup", [(0, len(atoms) + 3)], timeout=60, globs=dict(g, TWIN=True), pool=pool)
            chrun.record(ck, tw, f"reachability twin ({aname})", expect="refuted")
            shards = [(a, b) for a in range(len(REGIONS)) for b in range(len(atoms) + 4)]
            res = chrun.run(__name__, "h_soup", shards, timeout=(200 if tier == "quick" else 2400), globs=g, pool=pool)
            chrun.record(ck, res, f"every balanced soup in every region leaves the result unchanged ({aname} alphabet, <= {budget} tokens)",
                         bound=f"<= {budget} tokens, {len(atoms)} atoms + 3 bracket kinds, {len(REGIONS)} regions")
            cex += [(atoms, budget, c) for c in res.counterexamples]
    finally:
        pool.shutdown()
    seen = set()
    for atoms, budget, (shard, args, kw, msg) in cex:
        globals().update(MAXTOK=budget, ATOMS=atoms)
        region, toks, bad = replay(list(shard) + list(args))
        ck.traces += 1
        if bad is None:
            raise HarnessError(f"counterexample did not reproduce: {msg} {region[0]} {toks}")
        angle = d15_trigger(toks) and judge(region, [t for t in toks if t not in "<>"]) is None
        key = dict(kind="soup", cls="angle-heuristic" if angle else "other", region=region[0])
        sig = (key["cls"], key["region"], bad[:30])
        if sig in seen:
            continue
        seen.add(sig)
        body = ("from vf.props import c13\n" f"c13.MAXTOK = {budget}\nc13.ATOMS = {atoms!r}\nregion, toks, bad = c13.replay({list(shard) + list(args)!r})\n"
                "print(c13.render(region, toks)); print(bad)\nsys.exit(1 if bad else 0)\n")
        ck.violation(f"region {region[0]} with content {' '.join(toks)!r}: {bad}", ck.write_replay(body), key=key)
    # known finding D15 is re-demonstrated from its stored input, per listed region
    for e in ck.known:
        if not e["id"].startswith("D15"):
            continue
        region = next((r for r in REGIONS if r[0] == e["match"]["region"]), None)
        if region is None:
            continue
        toks = ["<", "(", ">", ")"] if region[3] != "[[]]" else ["a", "(", "<", "(", ">", ")", ")"]
        bad = judge(region, toks)
        ck.traces += 1
        if bad is not None and judge(region, [t for t in toks if t not in "<>"]) is None:
            ck.known_hit(e, f"{render(region, toks)!r}: {bad}")
    globals().update(MAXTOK=4, ATOMS=ATOMS_FULL)
    for vals in ([0, 7, 19, 5, 30, 30], [5, 1, 18, 2, 30, 30], [10, 20, 0, 30, 3, 30]):
        region, toks, bad = replay(vals + [30] * 4)
        ck.sample(dict(region=region[0], source=render(region, toks), verdict=bad or ("ok" if admissible(region, toks) else "not balanced: out of scope")))
    ck.extra["explanation"] = "CrossHair explores region x token-soup choices exhaustively; each balanced soup is parsed by the real parser and compared with the empty-region result"
    return ck
