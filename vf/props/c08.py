"""C08 - the lexer partitions the text: nothing lost, lines counted, literals whole.

Layer L (E-RX): per-rule verification conditions on the exact encoding of the built master regex + the
literal / ignore / error fall-through of `Lexer.token`; each VC quantifies over all strings of <= n code points
at a token start with arbitrary right context, so their conjunction covers inputs of any length by induction
over tokens (an argument; the solver verdicts are the bounded VCs).
Rule functions (E-CH traced): every t_* body run by CrossHair with a symbolic token text and a symbolic line
counter: returns the same token with the same text and adds exactly the number of newlines.
Layer S (E-CH traced): the real `LexerTokenStream._fill_tokbuf` over a stub PLY lexer with lazily forked
token kinds against a 10-line reference (continuation removal, user-defined-literal fusion, line end).
"""
import time
import re._parser as sp

import z3
from crosshair.tracers import NoTracing

from .. import rx
from ..common import Check, HarnessError
from ..chrun import Chooser

# the keyword list the lexer publishes at the pinned commit (reference: must stay keywords)
REF_KEYWORDS = [
    "__attribute__", "alignas", "alignof", "asm", "auto", "bool", "break", "case", "catch", "char", "char8_t", "char16_t",
    "char32_t", "class", "concept", "const", "constexpr", "const_cast", "continue", "decltype", "__declspec", "default", "delete",
    "do", "double", "dynamic_cast", "else", "enum", "explicit", "export", "extern", "false", "final", "float", "for",
    "__forceinline", "friend", "goto", "if", "__inline", "inline", "int", "long", "mutable", "namespace", "new", "noexcept",
    "nullptr", "nullptr_t", "operator", "private", "protected", "public", "register", "reinterpret_cast", "requires", "return",
    "short", "signed", "sizeof", "static", "static_assert", "static_cast", "struct", "switch", "template", "this", "thread_local",
    "throw", "true", "try", "typedef", "typeid", "typename", "union", "unsigned", "using", "virtual", "void", "volatile", "wchar_t",
    "while",
]

ISUF = r"([uU](ll|LL|l|L)?|(ll|LL|l|L)[uU]?)?"
FSUF = r"[fFlL]?"
# C++ escapes with their maximal-munch rule (an octal escape takes up to three octal digits, a hex escape all hex digits)
CESC = r"""\\(['"?\\abfnrtv]|[0-7][0-7][0-7]|[0-7][0-7]?(?![0-7])|x[0-9a-fA-F]+(?![0-9a-fA-F]))"""
# the same, restricted to escapes that are not directly followed by another digit: the lexer documents that it takes any
# digit run after a backslash as one escape ("we want to parse all correct code, even if it means to sometimes parse incorrect code")
CESC_NODIGIT = r"""\\(['"?\\abfnrtv]|[0-7][0-7]?[0-7]?(?!\d)|x[0-9a-fA-F]+(?![0-9a-fA-F]))"""
CCHAR = r"""([^'\\\n]|""" + CESC + ")"
SCHAR = r"""([^"\\\n]|""" + CESC + ")"
# reference grammars (C++ lexical grammar restricted to what the property statement enumerates)
LITERAL_SPECS = {
    "INT_CONST_HEX": r"0[xX][0-9a-fA-F]+('[0-9a-fA-F]+)*" + ISUF,
    "INT_CONST_BIN": r"0[bB][01]+('[01]+)*" + ISUF,
    "INT_CONST_OCT": r"0[0-7]*('[0-7]+)*" + ISUF,
    "INT_CONST_DEC": r"[1-9][0-9]*('[0-9]+)*" + ISUF,
    "FLOAT_CONST": r"(([0-9]+)?\.[0-9]+|[0-9]+\.)([eE][-+]?[0-9]+)?" + FSUF + r"|[0-9]+[eE][-+]?[0-9]+" + FSUF,
    "HEX_FLOAT_CONST": r"0[xX](([0-9a-fA-F]+)?\.[0-9a-fA-F]+|[0-9a-fA-F]+\.?)[pP][-+]?[0-9]+" + FSUF,
    "CHAR_CONST": "'" + CCHAR + "'",
    "WCHAR_CONST": "L'" + CCHAR + "'",
    "U8CHAR_CONST": "u8'" + CCHAR + "'",
    "U16CHAR_CONST": "u'" + CCHAR + "'",
    "U32CHAR_CONST": "U'" + CCHAR + "'",
    "INT_CONST_CHAR": "'" + CCHAR + "{2,4}'",
    "STRING_LITERAL": '"' + SCHAR + '*"',
    "WSTRING_LITERAL": 'L"' + SCHAR + '*"',
    "U8STRING_LITERAL": 'u8"' + SCHAR + '*"',
    "U16STRING_LITERAL": 'u"' + SCHAR + '*"',
    "U32STRING_LITERAL": 'U"' + SCHAR + '*"',
}
LITERAL_SPECS_B = {"INT_CONST_CHAR": "'([^'\\\\\\n]|" + CESC_NODIGIT + "){2,4}'"}
NUMERIC = {"INT_CONST_HEX", "INT_CONST_BIN", "INT_CONST_OCT", "INT_CONST_DEC", "FLOAT_CONST", "HEX_FLOAT_CONST"}


def follow_ok_numeric(ch):
    """a character that cannot continue a pp-number"""
    bad = z3.Or(z3.And(ch >= 48, ch <= 57), z3.And(ch >= 65, ch <= 90), z3.And(ch >= 97, ch <= 122), ch == 95, ch == 39, ch == 46, ch > 127)
    return z3.Not(bad)


# ---------------------------------------------------------------------------------------------
# E-CH harness 1: rule function bodies with symbolic text and line counter
# ---------------------------------------------------------------------------------------------

RULE = "t_NAME"  # set per worker
MAY_NEWLINE = False
TWIN = False


class _FakeLex:
    def __init__(self, lineno):
        self.lineno = lineno


class _Tok:
    pass


_RULE_RE = {}


def rule_re():
    """the rule's own regular expression, read from the lexer class of /repo (cached per worker)"""
    import re
    from cxxheaderparser.lexer import PlyLexer

    r = _RULE_RE.get(RULE)
    if r is None:
        with NoTracing():
            obj = getattr(PlyLexer, RULE)
            pat = obj if isinstance(obj, str) else obj.regex
            r = re.compile(pat, re.VERBOSE)
            _RULE_RE[RULE] = r
    return r


def value_ok(value):
    """texts the rule can produce: its own regex for the rules that may contain a newline (E-RX VC2), otherwise any
    newline-free text (a superset of the rule's language, by VC2)"""
    if ERROR_RULE:
        return True  # error rules must raise LexError whatever the text
    if ANYTEXT:
        return True  # superset mode: only a confirmation counts (a failure may lie outside the rule's language)
    if MAY_NEWLINE:
        return rule_re().fullmatch(value) is not None
    return "\n" not in value


def h_rulefn(value: str, lineno: int, offset: int) -> bool:
    """
    pre: 1 <= len(value) <= MAXLEN
    pre: lineno >= 1
    pre: value_ok(value)
    post: _
    """
    return _rulefn_body(value, lineno, offset)


class _OpaqueText:
    """an arbitrary token text by parametricity: it can be formatted, nothing else"""

    def __str__(self):
        return "<text>"

    __repr__ = __str__

    def __format__(self, spec):
        return "<text>"


def h_rulefn_opaque(lineno: int, offset: int) -> bool:
    """
    pre: lineno >= 1
    post: _
    """
    return _rulefn_body(_OpaqueText(), lineno, offset)


ANYTEXT = False


def _rulefn_body(value, lineno, offset):
    from cxxheaderparser.lexer import PlyLexer, LexError

    with NoTracing():
        lx = PlyLexer.__new__(PlyLexer)
        lx.filename = "f"
        fake = _FakeLex(lineno)
        lx.lex = fake
        t = _Tok()
        t.lexer = fake
        t.type = RULE[2:]
        t.lineno = lineno
        t.lexpos = 0
    lx.line_offset = offset
    t.value = value
    fn = getattr(PlyLexer, RULE)
    try:
        r = fn(lx, t)
    except LexError:
        if TWIN:
            return False
        return True  # error rules end the lex; location checked by C06/C10
    if TWIN:
        return False
    if r is None and RULE == "t_PP_DIRECTIVE":
        # preprocessor directives may vanish (#line / #warning) instead of raising: checked by C10, here: line counter untouched
        return fake.lineno == lineno
    if ERROR_RULE or r is None:
        return False
    if r is not t or r.value != value:
        return False
    return fake.lineno == lineno + value.count("\n")


MAXLEN = 6
ERROR_RULE = False

# ---------------------------------------------------------------------------------------------
# E-CH harness 2: _fill_tokbuf over a stub PLY lexer
# ---------------------------------------------------------------------------------------------

S_KINDS = ["NEWLINE", "\\", "INT_CONST_DEC", "NAME_", "NAME", "WHITESPACE", ";", "STRING_LITERAL", "__inline"]
S_MAXTOK = 5


class StubTok:
    def __init__(self, type_, value, lineno):
        self.type = type_
        self.value = value
        self.lineno = lineno
        self.lexpos = 0

    def __repr__(self):
        return f"<{self.type} {self.value!r}>"


class StubPly:
    """stands for PlyLexer: token() hands out a fixed list, current_location() as the real one computes it"""

    def __init__(self, toks):
        self.toks = list(toks)
        self.i = 0
        self.filename = "f"

    def token(self):
        if self.i >= len(self.toks):
            return None
        t = self.toks[self.i]
        self.i += 1
        return t

    def current_location(self):
        from cxxheaderparser.lexer import Location

        return Location(self.filename, self.i)


# every literal class of the lexer takes a user-defined-literal suffix (reference list: the statement's literal kinds)
REF_UDL_TYPES = ["FLOAT_CONST", "HEX_FLOAT_CONST", "INT_CONST_HEX", "INT_CONST_BIN", "INT_CONST_OCT", "INT_CONST_DEC", "INT_CONST_CHAR", "CHAR_CONST", "WCHAR_CONST",
                 "U8CHAR_CONST", "U16CHAR_CONST", "U32CHAR_CONST", "STRING_LITERAL", "WSTRING_LITERAL", "U8STRING_LITERAL", "U16STRING_LITERAL", "U32STRING_LITERAL"]


def s_make(kinds):
    vals = {"NEWLINE": "\n", "\\": "\\", "INT_CONST_DEC": "1", "NAME_": "_k", "NAME": "x", "WHITESPACE": " ", ";": ";",
            "STRING_LITERAL": '"s"', "__inline": "__inline"}
    out = []
    for j, k in enumerate(kinds):
        ty = "NAME" if k == "NAME_" else k
        out.append(StubTok(ty, vals.get(k, "0"), j + 1))
    return out


def s_reference(kinds):
    """one call of _fill_tokbuf on a fresh buffer: (list of (type, value), tokens consumed)"""
    from cxxheaderparser.lexer import LexerTokenStream

    udl = set(REF_UDL_TYPES)
    vals = [(t.type, t.value) for t in s_make(kinds)]
    out = []
    i = 0
    n = len(vals)
    if n == 0:
        return None, 0
    while i < n:
        ty, v = vals[i]
        i += 1
        if ty in udl and i < n and vals[i][0] == "NAME" and vals[i][1].startswith("_"):
            out.append(("UD_" + ty, v + vals[i][1]))
            i += 1
            continue
        out.append((ty, v))
        if ty == "NEWLINE":
            if len(out) >= 2 and out[-2][0] == "\\":
                out.pop()
                out.pop()
                continue
            break
    return out, i


def _dropped_line(line):
    """None, or what went wrong when `line` + newline + 'int a;' is lexed: the directive must vanish and everything else stay"""
    from cxxheaderparser.lexer import LexerTokenStream, LexError

    try:
        ls = LexerTokenStream("f", line + "\nint a;\n")
        out = []
        while True:
            t = ls.token_eof_ok()
            if t is None:
                break
            out.append(t.value)
    except LexError as e:
        return f"LexError: {e}"
    return None if out == ["int", "a", ";"] else f"tokens {out}"


def s_judge(kinds):
    from collections import deque
    from cxxheaderparser.lexer import LexerTokenStream

    ls = LexerTokenStream.__new__(LexerTokenStream)
    stub = StubPly(s_make(kinds))
    ls._lex = stub
    ls.tokbuf = deque()
    got_ret = ls._fill_tokbuf(ls.tokbuf)
    exp, used = s_reference(kinds)
    if exp is None:
        return None if got_ret is False and not ls.tokbuf else f"empty input: returned {got_ret}"
    got = [(t.type, t.value) for t in ls.tokbuf]
    if got_ret is not True:
        return f"returned {got_ret} although tokens were read"
    if got != exp:
        return f"buffer {got} expected {exp}"
    if stub.i != used:
        return f"consumed {stub.i} raw tokens, expected {used}"
    for t in ls.tokbuf:
        if not hasattr(t, "location"):
            return "token without location"
    return None


def h_fill(c0: int, c1: int, c2: int, c3: int, c4: int, c5: int, c6: int) -> bool:
    """
    post: _
    """
    with NoTracing():
        ch = Chooser([c0, c1, c2, c3, c4, c5, c6])
        kinds = []
        while len(kinds) < S_MAXTOK:
            k = ch.pick(len(S_KINDS) + 1)
            if k == len(S_KINDS):
                break
            kinds.append(S_KINDS[k])
        bad = s_judge(kinds)
        if TWIN:
            return False
        return bad is None


def s_replay(args):
    ch = Chooser(list(args), prefix=())
    kinds = []
    while len(kinds) < S_MAXTOK:
        k = ch.pick(len(S_KINDS) + 1)
        if k == len(S_KINDS):
            break
        kinds.append(S_KINDS[k])
    return kinds, s_judge(kinds)


# ---------------------------------------------------------------------------------------------


def model_tokenize(model, s):
    """whole-string tokenisation by the concrete instantiation of the lexer model: list of (kind, start, end) or error"""
    comp = rx.Comp(rx.CDom(s))
    out = []
    i = 0
    n = len(s)
    while i < n:
        if s[i] in model.ignore:
            i += 1
            continue
        k, e = model.tok_at(comp, i)
        if k == rx.ERR:
            out.append(("ERR", i, n))
            return out
        out.append((k, i, e))
        if e <= i:
            out.append(("STUCK", i, i))
            return out
        i = e
    return out


def real_tokenize(model, s):
    """the real PLY lexer: list of (rule idx | LIT, start, end) or error marker; skipped directives are recorded too"""
    from cxxheaderparser.lexer import PlyLexer, LexError

    lx = PlyLexer("f")
    lx.input(s)
    out = []
    while True:
        try:
            t = lx.token()
        except LexError as e:
            tok = e.tok
            out.append(("ERRTOK", tok.lexpos, tok.type))
            return out
        if t is None:
            return out
        out.append((t.type, t.lexpos, t.lexpos + len(t.value), t.value, t.lineno))


_TMODEL = None


def _tok_compare(snip):
    model = _TMODEL
    mt = model_tokenize(model, snip)
    rt = real_tokenize(model, snip)
    mb = [(s_, e_) for k, s_, e_ in mt if k not in ("ERR", "STUCK")]
    rb = [(x[1], x[2]) for x in rt if x[0] != "ERRTOK"]
    if not set(rb) <= set(mb):
        return 0, "harness", f"Lexer.token model disagrees with the real lexer on a test-suite snippet: {snip[:80]!r}"
    pos = 0
    for k, s_, e_ in mt:
        if k in ("ERR", "STUCK"):
            break
        if any(c not in model.ignore for c in snip[pos:s_]):
            return 0, "harness", "model dropped non-ignored characters"
        pos = e_
    for x in rt:
        if x[0] != "ERRTOK" and snip[x[1]:x[2]] != x[3]:
            return 0, "violation", f"token value {x[3]!r} is not the text at its position"
        if x[0] != "ERRTOK" and x[4] != 1 + snip.count("\n", 0, x[1]):
            return 0, "violation", f"token {x[3]!r} at offset {x[1]} has lineno {x[4]}"
    return len(rt), "ok", ""


def run(tier):
    ck = Check("C08", tier)
    from cxxheaderparser.lexer import PlyLexer, LexerTokenStream, LexError
    from cxxheaderparser._ply import lex as plylex
    from .. import chrun

    model = rx.LexModel()
    ck.encode(PlyLexer, plylex.Lexer.token, LexerTokenStream._fill_tokbuf)
    n = 6 if tier == "quick" else 9
    ck.bounds = dict(code_points=n, fill_tokbuf_tokens=4 if tier == "quick" else 5, rule_fn_text_len=5 if tier == "quick" else 7)
    ck.assume("code points range over 0..0x10FFFF", "each VC holds at a token start with arbitrary right context inside the bound",
              "reference literal grammars are the C++ ones restricted to the forms the property lists (no digit separators in floats, no raw strings)",
              "reference keyword list = the list the lexer published at the pinned commit")
    ck.out_of_scope(f"literals longer than {n} code points (covered only by the inductive shape of the VCs)", "raw strings, separators in floating literals")

    t = time.time()
    npairs, nstr, npieces = rx.validate_translator(model, tier, ck.seed)
    ck.traces += npairs
    ck.sub("translator validation (concrete instantiation vs re)", "E-RX", "holds", pairs=npairs, wall_s=round(time.time() - t, 1))

    # model of Lexer.token (ignore / literal / error fall-through) vs the real token loop, on the repo's own test inputs
    t = time.time()
    snippets = rx.test_corpus_snippets()
    import multiprocessing as mp
    import random as _r

    rnd = _r.Random(ck.seed)
    pool_snips = [sn[:100] for sn in snippets] + [sn[-100:] for sn in snippets if len(sn) > 100]
    if tier == "quick":
        pool_snips = rnd.sample(pool_snips, min(len(pool_snips), 160))
    global _TMODEL
    _TMODEL = model
    with mp.get_context("fork").Pool(min(16, mp.cpu_count())) as fp:
        results = fp.map(_tok_compare, pool_snips, chunksize=4)
    nt = 0
    for snip, (cnt, kind, what) in zip(pool_snips, results):
        nt += cnt
        if kind == "harness":
            raise HarnessError(what)
        if kind == "violation":
            return _violation_text(ck, snip, what)
    ck.traces += nt
    ck.sub("Lexer.token model vs real token loop on test-suite inputs; value == text; lineno == 1 + newlines before", "replay", "holds",
           snippets=len(pool_snips), tokens=nt, wall_s=round(time.time() - t, 1))

    # ---- VCs on the encoding --------------------------------------------------------------------------------
    zd = rx.ZDom(n)
    comp = rx.Comp(zd)
    rule0, end0 = model.first_rule(comp, 0)
    kind0, kend0 = model.tok_at(comp, 0)
    q = rx.Q()
    q.add(*zd.domain_constraints())
    t = time.time()

    # VC1 progress: a rule match at a token start is never empty
    q.push(); q.add(rule0 >= 0, end0 <= 0)
    r1 = q.check(); q.pop()
    vc1 = r1 == "unsat"
    if r1 == "sat":
        w = rx.model_string(q.model(), zd.c)
    ck.sub("VC1 every rule match is non-empty", "E-RX", "holds" if vc1 else ("flagged" if r1 == "sat" else "unknown"), bound=f"n={n}")

    # VC2 newline containment per rule
    may_nl = {}
    for nm, _, _ in model.rules:
        idx = model.name_idx[nm]
        q.push()
        q.add(rule0 == idx)
        q.add(z3.Or([z3.And(zd.c[k] == 10, end0 > k) for k in range(n)]))
        r = q.check()
        may_nl[nm] = (r != "unsat")
        if r == "unknown":
            ck.undecided.append(f"VC2 {nm}: unknown")
        q.pop()
    ck.sub("VC2 which rules can match a newline", "E-RX", "holds", rules_with_newline=sorted(k for k, v in may_nl.items() if v), bound=f"n={n}")
    ck.add_queries("z3", q.n, q.secs)
    q.report(ck, "lexer VC")

    # rule functions under CrossHair: same token, same text, lineno += number of newlines
    from .c16 import classify_rules

    rule_kinds = classify_rules(model, ck)
    pool = chrun.make_pool()
    bad_rules = []
    try:
        futs = []
        for nm, _, _ in model.rules:
            has_fn, ty = model.rule_info[nm]
            if not has_fn:
                continue
            obj = getattr(PlyLexer, nm)
            try:
                import re as _re
                minw = sp.parse(obj if isinstance(obj, str) else obj.regex, _re.VERBOSE).getwidth()[0]
            except Exception:
                minw = 1
            is_err = rule_kinds.get(nm, ("", None))[0] == "error"
            g = dict(RULE=nm, MAY_NEWLINE=may_nl[nm], ERROR_RULE=is_err, MAXLEN=max(5 if tier == "quick" else 7, min(minw + 3, 14)), ANYTEXT=False, TWIN=False)
            tmo = 40.0 if tier == "quick" else 200.0
            if nm == "t_PP_DIRECTIVE" and tier != "quick":
                # regex match, substring test and % formatting on the symbolic text: 6 characters (enough for a line marker '# 0 ""') is what finishes
                g["MAXLEN"], tmo = 6, 500.0
            alt = None
            if is_err:
                alt = pool.submit(chrun._work, __name__, "h_rulefn_opaque", (), tmo, 10.0, g)
            elif may_nl[nm]:
                alt = pool.submit(chrun._work, __name__, "h_rulefn", (), tmo, 10.0, dict(g, ANYTEXT=True))
            futs.append((nm, pool.submit(chrun._work, __name__, "h_rulefn", (), tmo, 10.0, g), alt))
        tw = pool.submit(chrun._work, __name__, "h_rulefn", (), 30.0, 10.0, dict(RULE="t_NEWLINE", MAY_NEWLINE=True, ERROR_RULE=False, TWIN=True))
        conf = 0
        paths = 0
        by_alt = []
        for nm, f, alt in futs:
            r = f.result()
            paths += r["paths"]
            ck.add_queries("crosshair-z3", r["z3_checks"], r["z3_s"])
            states = [s_ for s_, _ in r["msgs"]]
            ra = alt.result() if alt is not None else None
            if ra is not None:
                paths += ra["paths"]
                ck.add_queries("crosshair-z3", ra["z3_checks"], ra["z3_s"])
            if "CONFIRMED" in states:
                conf += 1
            elif ra is not None and "CONFIRMED" in [s_ for s_, _ in ra["msgs"]] and not any(s_ in ("POST_FAIL", "POST_ERR", "EXEC_ERR") for s_ in states):
                # confirmed for a superset of the rule's texts (any text / an opaque text that can only be formatted)
                conf += 1
                by_alt.append(nm)
            elif any(s_ in ("POST_FAIL", "POST_ERR", "EXEC_ERR") for s_ in states):
                msg = next(m for s_, m in r["msgs"] if s_ in ("POST_FAIL", "POST_ERR", "EXEC_ERR"))
                bad_rules.append((nm, msg))
            else:
                ck.undecided.append(f"rule function {nm}: {states}")
                ck.exhaustive = False
        ck.states += paths
        r = tw.result()
        if not any(s_ in ("POST_FAIL",) for s_, _ in r["msgs"]):
            raise HarnessError(f"rule-function harness is vacuous: twin gave {r['msgs']}")
        ck.sub("rule functions: same token/text, lineno += #newlines (all texts <= 6 chars, all line numbers)", "E-CH",
               "confirmed" if not bad_rules and conf == len(futs) else ("flagged" if bad_rules else "inconclusive"),
               rules=len(futs), confirmed=conf, paths=paths, confirmed_over_a_superset_of_texts=by_alt)
        for nm, msg in bad_rules:
            ce = chrun.parse_counterexample(msg)
            _rulefn_violation(ck, nm, ce, msg, may_nl[nm])

        # layer S
        g = dict(S_MAXTOK=(4 if tier == "quick" else 5))
        tw = chrun.run(__name__, "h_fill", [(0, len(S_KINDS))], timeout=60, globs=dict(g, TWIN=True), pool=pool)
        chrun.record(ck, tw, "layer S reachability twin", expect="refuted")
        shards = [(a, b) for a in range(len(S_KINDS)) for b in range(len(S_KINDS) + 1)] + [(len(S_KINDS),)]
        res = chrun.run(__name__, "h_fill", shards, timeout=(150 if tier == "quick" else 1200), globs=g, pool=pool)
        chrun.record(ck, res, "layer S: _fill_tokbuf vs reference over all raw token strings", bound=f"<= {g['S_MAXTOK']} tokens over {len(S_KINDS)} kinds")
        globals()["S_MAXTOK"] = g["S_MAXTOK"]
        # directive lines the statement lists as dropped: every spelling of #warning and of the two line-marker forms vanishes, the rest of the text stays
        drop_bad = []
        for line in ("#warning", "#warning x", "#warning\tx", '#warning"m"', "#warning x \\", '#line 7 "f.h"', '# 7 "f.h" 2', "#\tline 7 \"f.h\""):
            got = _dropped_line(line)
            ck.traces += 1
            if got is not None:
                drop_bad.append((line, got))
        ck.sub("directive lines that the lexer drops (#warning in every spelling, #line / # N markers): nothing but the line disappears", "replay", "holds" if not drop_bad else "flagged", lines=8)
        for line, got in drop_bad[:3]:
            body = ("from vf.props import c08\n" f"got = c08._dropped_line({line!r})\nprint(got)\nsys.exit(1 if got else 0)\n")
            ck.violation(f"directive line {line!r}: {got}", ck.write_replay(body), key=dict(kind="dropped-line"))
        # user-defined-literal fusion for every literal class (the enumeration above uses two representatives)
        udl_bad = []
        for ty in REF_UDL_TYPES:
            for follow in ("NAME_", "NAME", ";"):
                b_ = s_judge([ty, follow, "NEWLINE"])
                ck.traces += 1
                if b_ is not None:
                    udl_bad.append((ty, follow, b_))
        ck.sub("layer S: every literal class fuses with a following _suffix name into one UD_ token, and only with that", "replay", "holds" if not udl_bad else "flagged",
               classes=len(REF_UDL_TYPES))
        for ty, follow, b_ in udl_bad[:3]:
            body = ("from vf.props import c08\n" f"bad = c08.s_judge([{ty!r}, {follow!r}, 'NEWLINE'])\nprint(bad)\nsys.exit(1 if bad else 0)\n")
            ck.violation(f"_fill_tokbuf on [{ty}, {follow}]: {b_}", ck.write_replay(body), key=dict(kind="udl-class", ty=ty))
        seen = set()
        for shard, args, kw, msg in res.counterexamples:
            kinds, bad = s_replay(list(shard) + list(args))
            ck.traces += 1
            if bad is None:
                raise HarnessError(f"layer S counterexample did not reproduce: {msg}")
            src = "".join(t.value for t in s_make(kinds))
            key = dict(kind="fill_tokbuf", kinds="|".join(kinds))
            if key["kinds"] in seen:
                continue
            seen.add(key["kinds"])
            body = ("from vf.props import c08\n" f"c08.S_MAXTOK = {S_MAXTOK}\nkinds = {kinds!r}\nbad = c08.s_judge(kinds)\n"
                    "print(kinds, '->', bad)\nsys.exit(1 if bad else 0)\n")
            ck.violation(f"_fill_tokbuf on raw tokens {kinds} (source {src!r}): {bad}", ck.write_replay(body), key=key)
    finally:
        pool.shutdown()

    # VC3 literals
    t = time.time()
    q = rx.Q()
    q.add(*zd.domain_constraints())
    viol = []

    def vc3(cls, spec, label):
        rname = "t_" + cls
        ends = rx.language_ends(comp, spec)
        nq0 = q.n
        found = None
        reach = False
        for L in range(1, n):
            cond = ends.get(L, False)
            if cond is False:
                continue
            q.push()
            q.add(cond)
            if cls in NUMERIC:
                q.add(follow_ok_numeric(zd.c[L]))
            if q.check() != "sat":  # reachability: some literal of this length exists
                q.pop()
                continue
            reach = True
            q.add(z3.Not(z3.And(rule0 == model.name_idx[rname], end0 == L)))
            r = q.check()
            if r == "sat":
                w = rx.model_string(q.model(), zd.c)
                found = (L, w)
                q.pop()
                break
            if r != "unsat":
                ck.undecided.append(f"VC3 {cls} L={L}: {r}")
                ck.exhaustive = False
            q.pop()
        if not reach:
            raise HarnessError(f"VC3 {cls}: reference grammar has no member inside the bound (vacuous)")
        ck.sub(f"VC3 {cls}{label}: every reference literal is one token of this class", "E-RX", "holds" if found is None else "flagged",
               queries=q.n - nq0, bound=f"|literal| < {n}")
        return found

    for cls, spec in LITERAL_SPECS.items():
        if "t_" + cls not in model.name_idx:
            ck.skip(f"literal class {cls}", "no rule of that name in the built lexer")
            continue
        found = vc3(cls, spec, "")
        if found:
            viol.append((cls, found, "A"))
        if cls in LITERAL_SPECS_B:
            found = vc3(cls, LITERAL_SPECS_B[cls], " (escapes not followed by a digit)")
            if found:
                viol.append((cls, found, "B"))
    ck.add_queries("z3", q.n, q.secs)
    q.report(ck, "lexer VC")
    ck.states += q.n
    # character and string literals again with room for longer escapes (a three-digit hex escape needs 7 characters)
    if n < 9:
        saved = (n, zd, comp, rule0, end0, q)
        n = 9
        zd = rx.ZDom(n, prefix="w")
        comp = rx.Comp(zd)
        rule0, end0 = model.first_rule(comp, 0)
        q = rx.Q()
        q.add(*zd.domain_constraints())
        for cls, spec in LITERAL_SPECS.items():
            if "t_" + cls in model.name_idx and ("CHAR" in cls or "STRING" in cls):
                found = vc3(cls, spec, " (literals up to 8 characters)")
                if found:
                    viol.append((cls, found, "A"))
        ck.add_queries("z3", q.n, q.secs)
        ck.states += q.n
        n, zd, comp, rule0, end0, q = saved
    for cls, (L, w), variant in viol:
        lit, rest = w[:L], w[L:L + 1]
        src = lit + (rest if cls in NUMERIC else "")
        ck.traces += 1
        rt = real_tokenize(model, src + " ")
        ok = bool(rt) and rt[0][0] == cls and rt[0][1:3] == (0, L)
        if ok:
            # the right context matters (e.g. a following '.1' pulled into the token): replay the witness exactly as the solver gave it
            src = w
            rest = w[L:]
            rt = real_tokenize(model, src)
            ok = bool(rt) and rt[0][0] == cls and rt[0][1:3] == (0, L)
            if ok:
                raise HarnessError(f"VC3 model for {cls} does not reproduce on the real lexer: {src!r} -> {rt}")
            body = ("from vf.props import c08\nfrom vf import rx\n" f"src = {src!r}\nrt = c08.real_tokenize(rx.LexModel(), src)\nprint(repr(src), '->', rt)\n"
                    f"sys.exit(0 if (rt and rt[0][0] == {cls!r} and rt[0][1:3] == (0, {L})) else 1)\n")
            ck.violation(f"literal {lit!r} of class {cls} followed by {rest!r} lexes as {rt[:3]}", ck.write_replay(body), key=dict(kind="literal", cls=cls, shape="right-context"))
            continue
        body = ("from vf.props import c08\nfrom vf import rx\n" f"src = {src!r}\nrt = c08.real_tokenize(rx.LexModel(), src + ' ')\nprint(repr(src), '->', rt)\n"
                f"sys.exit(0 if (rt and rt[0][0] == {cls!r} and rt[0][1:3] == (0, {L})) else 1)\n")
        import re as _re
        shape = "escape-followed-by-digit" if (variant == "A" and _re.search(r"\\(\d+|x[0-9a-fA-F]+)\d", lit)) else "other"
        ck.violation(f"literal {lit!r} of class {cls} (followed by {rest!r}) lexes as {rt[:3]}", ck.write_replay(body),
                     key=dict(kind="literal", cls=cls, shape=shape))

    # VC4 keywords and maximal munch
    q = rx.Q()
    t = time.time()
    kw_bad = []
    nidx = model.name_idx.get("t_NAME")
    real_kw = set(PlyLexer.keywords)
    for kw in REF_KEYWORDS:
        if len(kw) + 1 > 16:
            continue
        cs = [ord(c) for c in kw] + [z3.Int("nx")]
        zk = rx.ZDom(len(cs), chars=cs)
        ck_ = rx.Comp(zk)
        r0, e0 = model.first_rule(ck_, 0)
        nx = cs[-1]
        q.push()
        q.add(nx >= 0, nx <= rx.MAXCP)
        q.add(z3.Not(z3.Or(z3.And(nx >= 48, nx <= 57), z3.And(nx >= 65, nx <= 90), z3.And(nx >= 97, nx <= 122), nx == 95)))
        q.add(z3.Not(z3.And(r0 == nidx, e0 == len(kw))))
        r = q.check()
        if r == "sat":
            kw_bad.append((kw, chr(q.model().eval(nx, model_completion=True).as_long())))
        elif r != "unsat":
            ck.undecided.append(f"VC4 keyword {kw}: {r}")
        q.pop()
        # the rule function must then retype it: real lexer, concretely (function side decided by E-CH above for the text)
        lx = PlyLexer("f"); lx.input(kw + " ")
        tk = lx.token()
        ck.traces += 1
        if tk is None or tk.type != kw or tk.value != kw:
            kw_bad.append((kw, " "))
    for kw, nx in kw_bad:
        body = ("from cxxheaderparser.lexer import PlyLexer\n" f"lx = PlyLexer('f'); lx.input({kw + nx!r}); t = lx.token()\nprint(t)\n"
                f"sys.exit(0 if (t is not None and t.type == {kw!r} and t.value == {kw!r}) else 1)\n")
        ck.violation(f"keyword {kw!r} followed by {nx!r} is not lexed as its own token type", ck.write_replay(body), key=dict(kind="keyword", kw=kw))
    ck.sub("VC4a every reference keyword lexes as its own type in every right context", "E-RX", "holds" if not kw_bad else "flagged",
           keywords=len(REF_KEYWORDS), queries=q.n)
    # maximal munch: pure-literal multi-character rules
    mm_bad = []
    for nm, a, g in model.rules:
        txt = pure_literal(a)
        if txt is None or len(txt) < 2:
            continue
        cs = [ord(c) for c in txt] + [z3.Int(f"m{i}") for i in range(3)]
        zk = rx.ZDom(len(cs), chars=cs)
        ck_ = rx.Comp(zk)
        k0, e0 = model.tok_at(ck_, 0)
        q.push()
        for v in cs[len(txt):]:
            q.add(v >= 0, v <= rx.MAXCP)
        q.add(z3.Not(z3.And(k0 == model.name_idx[nm], e0 == len(txt))))
        # a longer token that starts with the punctuator is not a split (e.g. a comment start is decided by C16/C09)
        q.add(e0 < len(txt))
        r = q.check()
        if r == "sat":
            mm_bad.append((nm, txt, rx.model_string(q.model(), cs)))
        q.pop()
    for nm, txt, w in mm_bad:
        body = ("from vf.props import c08\nfrom vf import rx\n" f"rt = c08.real_tokenize(rx.LexModel(), {w!r})\nprint(rt)\n"
                f"sys.exit(1 if (rt and rt[0][0] != 'ERRTOK' and rt[0][2] < {len(txt)}) else 0)\n")
        path = ck.write_replay(body)
        ok, out = ck.run_replay(path)
        if not ok:
            raise HarnessError(f"maximal munch model does not reproduce for {txt!r}: {out}")
        ck.violation(f"punctuator {txt!r} ({nm}) is split by the lexer in context {w!r}", path, key=dict(kind="munch", rule=nm))
    ck.add_queries("z3", q.n, q.secs)
    q.report(ck, "lexer VC")
    ck.states += q.n
    ck.sub("VC4b multi-character punctuators are never split (maximal munch)", "E-RX", "holds" if not mm_bad else "flagged", queries=q.n)
    ck.sample(dict(may_contain_newline=sorted(k for k, v in may_nl.items() if v)))
    ck.sample(dict(literal_classes=list(LITERAL_SPECS)))
    ck.extra["explanation"] = ("per-rule verification conditions decided by z3 on the exact encoding of the built master regex; rule "
                               "function bodies and _fill_tokbuf decided by CrossHair on the real code")
    if not vc1 and r1 == "sat":
        body = ("from vf.props import c08\nfrom vf import rx\n" f"print(c08.real_tokenize(rx.LexModel(), {w!r}))\nsys.exit(1)\n")
        ck.violation(f"a token rule matches the empty string at the start of {w!r}", ck.write_replay(body), key=dict(kind="empty-match"))
    return ck


def pure_literal(items):
    """text of a rule whose regex is a plain character sequence, else None"""
    import re._constants as sc

    out = []
    node = items
    while len(node) == 1 and node[0][0] is sc.SUBPATTERN:
        node = tuple(node[0][1][3])
    for op, av in node:
        if op is sc.LITERAL:
            out.append(chr(av))
        else:
            return None
    return "".join(out)


def _violation_text(ck, snip, what):
    body = ("from vf.props import c08\nfrom vf import rx\n" f"s = {snip!r}\nfor x in c08.real_tokenize(rx.LexModel(), s):\n"
            "    if x[0] != 'ERRTOK' and (s[x[1]:x[2]] != x[3] or x[4] != 1 + s.count(chr(10), 0, x[1])):\n        print('bad', x); sys.exit(1)\nsys.exit(0)\n")
    ck.violation(what, ck.write_replay(body), key=dict(kind="partition"))
    return ck


def _rulefn_violation(ck, nm, ce, msg, may_nl):
    args = ce[0] if ce else None
    kw = ce[1] if ce else {}
    value = (args[0] if args else kw.get("value", "\n"))
    lineno = (args[1] if args and len(args) > 1 else kw.get("lineno", 1))
    body = (
        "from cxxheaderparser.lexer import PlyLexer, LexError\n"
        f"value, lineno, rule = {value!r}, {lineno!r}, {nm!r}\n"
        "class L: pass\nclass T: pass\n"
        "lx = PlyLexer.__new__(PlyLexer); lx.filename = 'f'; lx.line_offset = 0; fake = L(); fake.lineno = lineno; lx.lex = fake\n"
        "t = T(); t.lexer = fake; t.type = rule[2:]; t.value = value; t.lineno = lineno; t.lexpos = 0\n"
        "try:\n    r = getattr(PlyLexer, rule)(lx, t)\nexcept LexError:\n    sys.exit(0)\n"
        "print('returned', r, 'value', getattr(r, 'value', None), 'lineno', fake.lineno, 'expected', lineno + value.count(chr(10)))\n"
        "if r is None: sys.exit(0 if (rule == 't_PP_DIRECTIVE' and fake.lineno == lineno) else 1)\n"
        "sys.exit(0 if (r is t and r.value == value and fake.lineno == lineno + value.count(chr(10))) else 1)\n")
    path = ck.write_replay(body)
    ok, out = ck.run_replay(path)
    ck.traces += 1
    if not ok:
        raise HarnessError(f"rule-function counterexample for {nm} did not reproduce: {msg}\n{out}")
    ck.violation(f"rule function {nm} on text {value!r}: {out.strip()[-200:]}", path, key=dict(kind="rulefn", rule=nm))
