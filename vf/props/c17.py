"""C17 - formatted types parse back to the same type.

Engine E-CH.  CrossHair explores the C02 type-tree space (6 base types x wrapper sequences, C++-legal nestings); each
tree T is formatted by the REAL format_decl("x") / format() and re-parsed in variable, parameter, typedef (function
types), alias and template-argument position; the re-parsed tree must equal T (and the name must be x).  Plus the
formatted forms of qualified names, template specializations, parameters, values and decltype specifiers.
A failing tree is minimised by subtree (smallest subtree whose own round trip fails) and classified by
(method, outer node kind, inner node kind); known_findings.json lists classes (D8), anything else is a violation.
"""
from crosshair.tracers import NoTracing

from ..chrun import Chooser
from ..common import Check, HarnessError
from .. import gtypes as G

TWIN = False
DEPTH = 2
EXCUSE = ()


def _c02():
    from . import c02

    return c02


def positions():
    from cxxheaderparser.types import FunctionType

    return [
        ("format_decl/variable", lambda t: t.format_decl("x") + ";", lambda d: (d.namespace.variables[0].type, d.namespace.variables[0].name.segments[-1].name),
         lambda t: not isinstance(t, FunctionType)),
        ("format_decl/parameter", lambda t: "void f(" + t.format_decl("x") + ");", lambda d: (d.namespace.functions[0].parameters[0].type, d.namespace.functions[0].parameters[0].name),
         lambda t: not isinstance(t, FunctionType)),
        ("format_decl/typedef", lambda t: "typedef " + t.format_decl("x") + ";", lambda d: (d.namespace.typedefs[0].type, d.namespace.typedefs[0].name), lambda t: True),
        ("format/alias", lambda t: "using x = " + t.format() + ";", lambda d: (d.namespace.using_alias[0].type, d.namespace.using_alias[0].alias), lambda t: not isinstance(t, FunctionType)),
        ("format/template-argument", lambda t: "W<" + t.format() + "> x;", lambda d: (d.namespace.variables[0].type.typename.segments[0].specialization.args[0].arg, "x"),
         lambda t: not (_c02().needs_group(t) or _c02().has_array(t))),  # the parser reports such type-ids as raw values: finding D20 of C02
        ("Parameter.format", None, None, lambda t: not isinstance(t, FunctionType)),
    ]


POS = None


def roundtrip(pos, t):
    from cxxheaderparser.simple import parse_string
    from cxxheaderparser.errors import CxxParseError
    from cxxheaderparser.types import Parameter, Value, Token

    if pos[0] == "Parameter.format":
        p = Parameter(type=t, name="x", default=Value([Token("1")]))
        try:
            text = p.format()
        except Exception as e:  # noqa
            return "?", f"format raised {type(e).__name__}: {e}"
        src = "void f(" + text + ");"
        try:
            d = parse_string(src)
            got = d.namespace.functions[0].parameters[0]
        except CxxParseError as e:
            return src, f"parse error: {e}"
        except Exception as e:  # noqa
            return src, f"not a parameter ({type(e).__name__})"
        return src, (None if got == p else f"parameter differs: {got}")
    try:
        src = pos[1](t)
    except Exception as e:  # noqa
        return "?", f"format raised {type(e).__name__}: {e}"
    try:
        d = parse_string(src)
    except CxxParseError as e:
        return src, f"parse error: {e}"
    try:
        ty, nm = pos[2](d)
    except Exception as e:  # noqa
        return src, f"re-parsed as a different kind of declaration ({type(e).__name__})"
    if nm != "x":
        return src, f"name {nm!r}"
    if ty != t:
        return src, f"re-parsed type {G.sig(ty) if not isinstance(ty, str) and hasattr(ty, '__dataclass_fields__') and not type(ty).__name__ == 'Value' else type(ty).__name__} != {G.sig(t)}"
    return src, None


def classify(pos, t):
    """(method, outer kind, inner kind) of the smallest failing subtree"""
    cur = t
    while True:
        ch_ = G.child(cur)
        if ch_ is None:
            return (pos[0], G.kind(cur), "-")
        if pos[3](ch_) and roundtrip(pos, ch_)[1] is not None:
            cur = ch_
            continue
        return (pos[0], G.kind(cur), G.kind(ch_))


def h_rt(c0: int, c1: int, c2: int, c3: int, c4: int, c5: int) -> bool:
    """
    post: _
    """
    with NoTracing():
        global POS
        if POS is None:
            POS = positions()
        ch = Chooser([c0, c1, c2, c3, c4, c5])
        pos = POS[ch.pick(len(POS))]
        t, desc = G.gen_type(ch, DEPTH)
        if t is None or not pos[3](t):
            return True
        if TWIN:
            return False
        src, bad = roundtrip(pos, t)
        if bad is None:
            return True
        return "|".join(classify(pos, t)) in EXCUSE


def rt_replay(vals, depth):
    global POS
    if POS is None:
        POS = positions()
    ch = Chooser(list(vals), prefix=())
    pos = POS[ch.pick(len(POS))]
    t, desc = G.gen_type(ch, depth)
    if t is None or not pos[3](t):
        return pos[0], None, None, None, None
    src, bad = roundtrip(pos, t)
    return pos[0], G.sig(t), src, bad, ("|".join(classify(pos, t)) if bad else None)


# ---------------------------------------------------------------------------------------------
# other formatters
# ---------------------------------------------------------------------------------------------

NAME_SRCS = [
    "ns::T v;", "::G v;", "a::b::c::D v;", "V<int> v;", "V<int, 3> v;", "V<W<int>, ns::T> v;", "V<W<X<int>>> v;", "typename T::type v;", "a::template B<int>::c v;",
    "V<const int*, void (int)> v;", "V<T...> v;", "V<sizeof(int)> v;", "V<(1 > 2)> v;", "unsigned long long v;", "decltype(x + 1) v;", "decltype(a)::type v;",
    "struct S v;", "enum class E v;", "V<int&, int&&, int* const> v;", "V<\"s\", 'c', 1.5f> v;",
    "decltype(static_cast<const T&>(t)) v;", "decltype(new Foo) v;", "decltype(sizeof x + alignof(unsigned int)) v;", "V<decltype(const_cast<volatile U*>(p)), 1 + sizeof(Ts)> v;", "V<sizeof...(Ts)> v;",
    "typename decltype(new Foo)::element_type v;", "V<T volatile, int volatile*, ns::R volatile&, U const volatile> v;", "V<unsigned long, long double, signed char> v;",
]


def name_judge(src):
    from cxxheaderparser.simple import parse_string
    from cxxheaderparser.errors import CxxParseError

    try:
        d = parse_string(src)
    except CxxParseError as e:
        raise HarnessError(f"name source does not parse: {src!r}: {e}")
    t = d.namespace.variables[0].type
    text = t.typename.format()
    src2 = text + " v;"
    try:
        d2 = parse_string(src2)
    except CxxParseError as e:
        return f"PQName.format() = {text!r} does not parse: {e}"
    t2 = d2.namespace.variables[0].type
    if t2.typename != t.typename:
        return f"PQName.format() = {text!r} re-parses to a different name"
    return None


def run(tier):
    from .. import chrun
    from cxxheaderparser import types as T

    ck = Check("C17", tier)
    depth = 2 if tier == "quick" else 3
    ck.encode(T.Type, T.Pointer, T.Reference, T.MoveReference, T.Array, T.FunctionType, T.Parameter, T.PQName, T.NameSpecifier, T.TemplateSpecialization, T.TemplateArgument, T.Value)
    pos = positions()
    ck.bounds = dict(tree_depth=depth, positions=[p[0] for p in pos], name_sources=len(NAME_SRCS))
    ck.assume("trees are the C02 generator's range (C++-legal nestings only)", "template-argument position: trees with an array suffix or a grouping parenthesis are not re-parsed there (the parser reports them as raw values: known finding D20 of C02)", "AnonymousName is outside: its format is documented as unstable",
              "a failing tree is classified by the smallest failing subtree: (method/position, outer node kind, inner node kind)")
    ck.out_of_scope(f"trees deeper than {depth} over the other base types, deeper than {depth + 1} over int")
    excuse = tuple(e["match"]["cls"] for e in ck.known if e.get("match", {}).get("kind") == "roundtrip")
    pool = chrun.make_pool()
    try:
        g = dict(DEPTH=depth, EXCUSE=excuse)
        tw = chrun.run(__name__, "h_rt", [(0, 0)], timeout=60, globs=dict(g, TWIN=True), pool=pool)
        chrun.record(ck, tw, "round trip reachability twin", expect="refuted")
        shards = [(a, b) for a in range(len(pos)) for b in range(len(G.base_types()))]
        res = chrun.run(__name__, "h_rt", shards, timeout=(200 if tier == "quick" else 2400), globs=g, pool=pool)
        chrun.record(ck, res, "format_decl / format round trip of every legal tree in every position", bound=f"depth <= {depth}, {len(pos)} positions")
        # one level deeper over the plain base type (the declarator structure is what the formatters branch on)
        shards = [(a, 0, b) for a in range(len(pos)) for b in range(len(G.WRAPS) + 1)]
        res2 = chrun.run(__name__, "h_rt", shards, timeout=(300 if tier == "quick" else 3600), globs=dict(g, DEPTH=depth + 1), pool=pool)
        chrun.record(ck, res2, "the same one level deeper over the base type int", bound=f"depth <= {depth + 1}, base type int, {len(pos)} positions")
    finally:
        pool.shutdown()
    seen = set()
    for shard, args, kw, msg, depth in [c + (depth,) for c in res.counterexamples] + [c + (depth + 1,) for c in res2.counterexamples]:
        pname, sg, src, bad, cls = rt_replay(list(shard) + list(args), depth)
        ck.traces += 1
        if bad is None:
            raise HarnessError(f"round-trip counterexample did not reproduce: {msg}")
        if cls in seen:
            continue
        seen.add(cls)
        body = ("from vf.props import c17\n" f"r = c17.rt_replay({list(shard) + list(args)!r}, {depth})\nprint(r)\nsys.exit(1 if r[3] else 0)\n")
        ck.violation(f"{pname}: tree {sg} formats as {src!r}: {bad}  [class {cls}]", ck.write_replay(body), key=dict(kind="roundtrip", cls=cls))
    ck.extra["failing_classes_found"] = sorted(seen)
    # listed known classes: re-demonstrated from a stored tree per class
    for e in ck.known:
        m = e.get("match", {})
        if m.get("kind") != "roundtrip":
            continue
        w = e.get("witness")
        if not w:
            continue
        pname, sg, src, bad, cls = rt_replay(w, e.get("witness_depth", 3))
        ck.traces += 1
        if bad is not None and cls == m["cls"]:
            ck.known_hit(e, f"{sg} -> {src!r}: {bad[:80]}")
    nb = 0
    for src in NAME_SRCS:
        bad = name_judge(src)
        ck.traces += 1
        nb += 1
        if bad:
            body = ("from vf.props import c17\n" f"bad = c17.name_judge({src!r})\nprint(bad)\nsys.exit(1 if bad else 0)\n")
            ck.violation(f"{bad} (from {src!r})", ck.write_replay(body), key=dict(kind="name-format", src=src, bad=bad))
    ck.sub("PQName / TemplateSpecialization / DecltypeSpecifier / Value formats re-parse to equal names", "replay", "holds" if not [v for v in ck.violations if v["key"]["kind"] == "name-format"] else "flagged", sources=nb)
    r = rt_replay([0, 0, 0, 3, 10, 10], depth)
    ck.sample(dict(position=r[0], tree=r[1], formatted=r[2], verdict=r[3] or "ok"))
    r = rt_replay([4, 1, 5, 1, 10, 10], depth)
    ck.sample(dict(position=r[0], tree=r[1], formatted=r[2], verdict=r[3] or "ok"))
    ck.extra["explanation"] = "CrossHair explores type trees x positions; each tree is formatted by the real formatters, re-parsed by the real parser and compared; failures are minimised and classified"
    return ck
