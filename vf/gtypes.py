"""G_type: C++ type trees built from a Chooser, an independent inside-out declarator printer and a reference
declarator parser.  The expected tree is the generator's own object, never something the parser produced."""
from cxxheaderparser.types import (
    Array, FunctionType, FundamentalSpecifier, MoveReference, NameSpecifier, Parameter, Pointer, PQName, Reference,
    TemplateArgument, TemplateSpecialization, Token, Type, Value,
)


def base_types():
    return [
        lambda: Type(PQName([FundamentalSpecifier("int")])),
        lambda: Type(PQName([FundamentalSpecifier("int")]), const=True),
        lambda: Type(PQName([FundamentalSpecifier("unsigned long")])),
        lambda: Type(PQName([NameSpecifier("ns"), NameSpecifier("T")])),
        lambda: Type(PQName([NameSpecifier("V", TemplateSpecialization([TemplateArgument(Type(PQName([FundamentalSpecifier("int")])))]))]), volatile=True),
        lambda: Type(PQName([NameSpecifier(""), NameSpecifier("G")]), const=True, volatile=True),
        lambda: Type(PQName([FundamentalSpecifier("long double")])),
        lambda: Type(PQName([FundamentalSpecifier("short signed int")]), volatile=True),
        lambda: Type(PQName([FundamentalSpecifier("int unsigned long")])),
    ]


WRAPS = ["ptr", "cptr", "vptr", "lref", "rref", "arr", "arr3", "fn0", "fn1", "fnv", "arrs", "fnv0"]


def wrap(t, w):
    """t wrapped by one declarator level, or None when C++ forbids it"""
    is_ref = isinstance(t, (Reference, MoveReference))
    if w in ("ptr", "cptr", "vptr"):
        if is_ref:
            return None
        return Pointer(t, const=(w == "cptr"), volatile=(w == "vptr"))
    if w == "lref":
        return None if is_ref else Reference(t)
    if w == "rref":
        return None if is_ref else MoveReference(t)
    if w in ("arr", "arr3", "arrs"):
        if is_ref or isinstance(t, FunctionType):
            return None
        if isinstance(t, Array) and t.size is None:
            return None  # only the outermost bound may be omitted
        if w == "arrs":
            # a bound made of two word-like tokens: the formatter must keep them apart
            return Array(t, Value([Token("sizeof", "sizeof"), Token("hdr", "NAME"), Token("+", "+"), Token("1", "INT_CONST_DEC")]))
        return Array(t, None if w == "arr" else Value([Token("3", "INT_CONST_DEC")]))
    if w == "fnv0":
        if isinstance(t, (Array, FunctionType)):
            return None
        return FunctionType(t, [], vararg=True)
    if w in ("fn0", "fn1", "fnv"):
        if isinstance(t, (Array, FunctionType)):
            return None
        params = [] if w != "fn1" else [Parameter(Type(PQName([FundamentalSpecifier("int")])), "a")]
        if w == "fnv":
            params = [Parameter(Type(PQName([FundamentalSpecifier("char")]), const=True), None)]
        return FunctionType(t, params, vararg=(w == "fnv"))
    raise ValueError(w)


def gen_type(ch, depth, bases=None):
    """(tree, description) : base type then up to `depth` wrappers chosen lazily"""
    bases = bases or base_types()
    t = bases[ch.pick(len(bases))]()
    desc = []
    for _ in range(depth):
        k = ch.pick(len(WRAPS) + 1)
        if k == len(WRAPS):
            break
        nt = wrap(t, WRAPS[k])
        if nt is None:
            return None, desc + [WRAPS[k] + "(illegal)"]
        t = nt
        desc.append(WRAPS[k])
    return t, desc


def fmt_base(t):
    c = "const " if t.const else ""
    v = "volatile " if t.volatile else ""
    return f"{c}{v}{fmt_pqname(t.typename)}"


def fmt_pqname(pq):
    parts = []
    for s in pq.segments:
        if isinstance(s, FundamentalSpecifier):
            parts.append(s.name)
        elif isinstance(s, NameSpecifier):
            if s.specialization:
                args = ", ".join(declarator(a.arg, "") if not isinstance(a.arg, Value) else " ".join(tk.value for tk in a.arg.tokens) for a in s.specialization.args)
                parts.append(f"{s.name}<{args}>")
            else:
                parts.append(s.name)
        else:
            parts.append(s.format())
    return "::".join(parts)


def declarator(t, inner):
    """independent printer: `t` written around the declarator text `inner` by the C++ inside-out rule"""
    if isinstance(t, Type):
        return f"{fmt_base(t)} {inner}".rstrip()
    if isinstance(t, Pointer):
        q = (" const" if t.const else "") + (" volatile" if t.volatile else "")
        s = f"*{q} {inner}".rstrip() if q else f"*{inner}"
        if isinstance(t.ptr_to, (Array, FunctionType)):
            s = f"({s})"
        return declarator(t.ptr_to, s)
    if isinstance(t, Reference):
        s = f"&{inner}"
        if isinstance(t.ref_to, (Array, FunctionType)):
            s = f"({s})"
        return declarator(t.ref_to, s)
    if isinstance(t, MoveReference):
        s = f"&&{inner}"
        if isinstance(t.moveref_to, (Array, FunctionType)):
            s = f"({s})"
        return declarator(t.moveref_to, s)
    if isinstance(t, Array):
        sz = " ".join(tk.value for tk in t.size.tokens) if t.size else ""
        return declarator(t.array_of, f"{inner}[{sz}]")
    if isinstance(t, FunctionType):
        ps = ", ".join(declarator(p.type, p.name or "") for p in t.parameters)
        if t.vararg:
            ps = (ps + ", ..." if ps else "...")
        return declarator(t.return_type, f"{inner}({ps})")
    raise TypeError(t)


def sig(t):
    if isinstance(t, Type):
        return "T"
    if isinstance(t, Pointer):
        return "P" + ("c" if t.const else "") + ("v" if t.volatile else "") + "(" + sig(t.ptr_to) + ")"
    if isinstance(t, Reference):
        return "R(" + sig(t.ref_to) + ")"
    if isinstance(t, MoveReference):
        return "M(" + sig(t.moveref_to) + ")"
    if isinstance(t, Array):
        return "A" + ("n" if t.size else "") + "(" + sig(t.array_of) + ")"
    if isinstance(t, FunctionType):
        return f"F{len(t.parameters)}{'v' if t.vararg else ''}(" + sig(t.return_type) + ")"
    return "?"


def child(t):
    if isinstance(t, Pointer):
        return t.ptr_to
    if isinstance(t, Reference):
        return t.ref_to
    if isinstance(t, MoveReference):
        return t.moveref_to
    if isinstance(t, Array):
        return t.array_of
    if isinstance(t, FunctionType):
        return t.return_type
    return None


def kind(t):
    return type(t).__name__


# ---------------------------------------------------------------------------------------------
# reference declarator parser over a token list (C++ grammar, inside-out)
# ---------------------------------------------------------------------------------------------


class Reject(Exception):
    pass


def ref_parse(toks):
    """parse `toks` as a declarator for base type int; returns (type tree, name) or raises Reject.
    declarator := ptr-op* direct ;  ptr-op := '*' cv* | '&' | '&&' ;  direct := ( NAME | '(' declarator ')' ) suffix* ;
    suffix := '[' ['3'] ']' | '(' ')'"""
    pos = [0]

    def peek():
        return toks[pos[0]] if pos[0] < len(toks) else None

    def eat(x):
        if peek() != x:
            raise Reject(f"expected {x} at {pos[0]}")
        pos[0] += 1

    def declarator_():
        ops = []
        while peek() in ("*", "&", "&&"):
            op = peek()
            pos[0] += 1
            c = v = False
            if op == "*":
                while peek() in ("const", "volatile"):
                    if peek() == "const":
                        c = True
                    else:
                        v = True
                    pos[0] += 1
            ops.append((op, c, v))
        inner = direct()

        def apply(t):
            # pointer operators bind after the suffixes of the direct declarator: apply to the base first, right to left
            for op, c, v in ops:
                if op == "*":
                    nt = wrap(t, "ptr")
                    if nt is None:
                        raise Reject("pointer to reference")
                    nt.const, nt.volatile = c, v
                    t = nt
                else:
                    nt = wrap(t, "lref" if op == "&" else "rref")
                    if nt is None:
                        raise Reject("reference to reference")
                    t = nt
            return inner(t)

        return apply

    name = [None]

    def direct():
        if peek() == "x":
            pos[0] += 1
            name[0] = "x"
            core = lambda t: t  # noqa
        elif peek() == "(":
            pos[0] += 1
            if peek() == ")":
                raise Reject("function suffix without a declarator")
            inner = declarator_()
            eat(")")
            core = inner
        else:
            raise Reject("no declarator id")
        sufs = []
        while peek() in ("[", "("):
            if peek() == "[":
                pos[0] += 1
                size = None
                if peek() == "3":
                    size = "3"
                    pos[0] += 1
                eat("]")
                sufs.append(("arr", size))
            else:
                pos[0] += 1
                eat(")")
                sufs.append(("fn", None))

        def apply(t):
            # suffixes apply left to right to the *declared entity*, i.e. the base type is wrapped right to left
            for kind_, size in reversed(sufs):
                if kind_ == "arr":
                    nt = wrap(t, "arr3" if size else "arr")
                else:
                    nt = wrap(t, "fn0")
                if nt is None:
                    raise Reject("illegal array / function nesting")
                t = nt
            return core(t)

        return apply

    build = declarator_()
    if pos[0] != len(toks):
        raise Reject("trailing tokens")
    t = build(Type(PQName([FundamentalSpecifier("int")])))
    return t, name[0]
