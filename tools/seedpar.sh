#!/bin/sh
# tools/seedpar.sh <seed id> [tier]  -- development aid: runs the seed's property check against a scratch worktree with the
# seeded change applied (PYTHONPATH puts the worktree's package first; evidence goes to a scratch directory), so several
# seeds can be tried at once and /repo is never touched.  Prints "<seed> <exit code> <violation lines>".
SID=$1; TIER=${2:-quick}
SEED=/verif/seeded/$SID
P=${3:-$(python3 -c "import json;print(json.load(open('$SEED/meta.json'))['property'])")}
WT=$(mktemp -d /tmp/spw_XXXXXX)
git -C /repo worktree add -q --detach "$WT" HEAD || exit 2
if ! git -C "$WT" apply "$SEED/patch.diff" 2>/dev/null; then echo "$SID PATCH-DOES-NOT-APPLY"; git -C /repo worktree remove --force "$WT"; exit 2; fi
mkdir -p "$WT/_ev"
cd /verif
VF_EVIDENCE_DIR="$WT/_ev" PYTHONPATH="/verif:$WT" VERIF_SEEDRUN=1 .venv/bin/python -m vf.main "$P" "$TIER" > "$WT/_log" 2>&1; rc=$?
echo "$SID $P exit=$rc violations=$(grep -c '^VIOLATION' "$WT/_log") $(grep -m1 -A1 '^VIOLATION' "$WT/_log" | tail -1 | cut -c1-160) $(grep -m1 'HARNESS-ERROR' "$WT/_log" | cut -c1-200)"
git -C /repo worktree remove --force "$WT"
