#!/bin/sh
# tools/seedverify.sh <seed dir>: confirms a seeded change in a scratch worktree: patch applies to /repo HEAD, the test suite passes with it,
# demo.py exits 0 without and non-zero with the patch.
SEED=$1
WT=$(mktemp -d /tmp/sv_XXXXXX)
git -C /repo worktree add -q --detach "$WT" HEAD || exit 2
cd "$WT" || exit 2
mkdir -p _seed/x && cp "$SEED"/demo.py _seed/x/demo.py
/venv/bin/python _seed/x/demo.py >/dev/null 2>&1; d0=$?
if git apply "$SEED/patch.diff" 2>/dev/null; then ap=ok; else ap=FAIL; fi
t=$(/venv/bin/python -m pytest -q -p no:cacheprovider 2>&1 | tail -1)
/venv/bin/python _seed/x/demo.py >/dev/null 2>&1; d1=$?
cd /; git -C /repo worktree remove --force "$WT"
echo "$SEED apply=$ap demo_clean=$d0 demo_patched=$d1 tests: $t"
