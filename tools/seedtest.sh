#!/bin/sh
# tools/seedtest.sh <seed dir> <tier> <check id> [<check id> ...]
# Verifies a seeded change in a scratch worktree (tests pass, demo fails with / passes without), then applies it to /repo,
# runs the named checks, and restores /repo.  Development aid only.
SEED=$1; TIER=$2; shift 2
WT=$(mktemp -d /tmp/seedwt_XXXX)
git -C /repo worktree add -q --detach "$WT" HEAD || exit 2
cd "$WT" || exit 2
mkdir -p _seed/x && cp "$SEED"/demo.py _seed/x/demo.py
/venv/bin/python _seed/x/demo.py >/dev/null 2>&1; echo "demo on clean tree: exit $?"
git apply "$SEED/patch.diff" || { echo "PATCH DOES NOT APPLY"; cd /; git -C /repo worktree remove --force "$WT"; exit 2; }
/venv/bin/python -m pytest -q -p no:cacheprovider 2>&1 | tail -1
/venv/bin/python _seed/x/demo.py >/dev/null 2>&1; echo "demo with patch: exit $?"
cd /verif
git -C /repo worktree remove --force "$WT"
git -C /repo apply "$SEED/patch.diff" || exit 2
for id in "$@"; do
  bin/check "$id" "$TIER" > /tmp/seed_$id.log 2>&1; rc=$?
  echo "check $id $TIER: exit $rc  $(grep -c '^VIOLATION' /tmp/seed_$id.log) violation line(s)"
  grep -A1 '^VIOLATION' /tmp/seed_$id.log | grep -v '^--' | cut -c1-260 | head -6
  grep 'HARNESS-ERROR' /tmp/seed_$id.log | head -2 | cut -c1-300
done
git -C /repo checkout -- . 
git -C /repo status --short | head -3
