#!/bin/sh
# tools/runall.sh <tier> [ids...]   - runs the checks one after another on the current /repo tree and prints a summary
TIER=${1:-quick}; shift
IDS=${@:-C01 C02 C03 C04 C05 C06 C07 C08 C09 C10 C11 C12 C13 C14 C15 C16 C17 C18 C19 C20}
cd "$(dirname "$0")/.." || exit 2
git -C /repo status --short | grep -q . && { echo "/repo has uncommitted changes"; exit 2; }
for id in $IDS; do
  s=$(date +%s)
  bin/check $id $TIER > /tmp/runall_${TIER}_$id.log 2>&1; rc=$?
  e=$(date +%s)
  echo "$id $TIER exit=$rc wall=$((e-s))s $(grep -c '^VIOLATION' /tmp/runall_${TIER}_$id.log) violations $(grep -c '^KNOWN-FINDING' /tmp/runall_${TIER}_$id.log) known  | $(tail -1 /tmp/runall_${TIER}_$id.log | cut -c1-150)"
done
