#!/usr/bin/env python3
"""tools/keepseed.py <seed src dir> <seed id> <property> <caught: yes|no|after-strengthening> <checks run> -- copies a confirmed seeded change into /verif/seeded/<id>/"""
import json, os, shutil, sys
src, sid, prop, caught, ran = sys.argv[1:6]
dst = os.path.join(os.path.dirname(os.path.dirname(os.path.abspath(__file__))), "seeded", sid)
os.makedirs(dst, exist_ok=True)
shutil.copy(os.path.join(src, "patch.diff"), dst)
shutil.copy(os.path.join(src, "demo.py"), dst)
notes = open(os.path.join(src, "notes.md")).read() if os.path.exists(os.path.join(src, "notes.md")) else ""
meta = dict(seed=sid, property=prop, source="independent sub-agent given only the property text and a scratch worktree",
            needs_to_manifest=notes.strip(), confirmed=["patch applies to /repo HEAD", "301 tests pass with the patch", "demo.py exits 0 without / non-zero with the patch"],
            ran=ran, detected=caught)
json.dump(meta, open(os.path.join(dst, "meta.json"), "w"), indent=1)
print("kept", dst)
