#!/usr/bin/env python
# replay for property C07 (written by the quick check); run with /verif/.venv/bin/python
import sys
sys.path.insert(0, '/verif')

import sys, time, json
sys.setrecursionlimit(10000)
from cxxheaderparser.simple import parse_string
from cxxheaderparser.errors import CxxParseError
from vf.props.c07 import nest_source

def family_times(name, depths=(20, 40, 80, 160), budget=20.0):
    ts = []
    for d in depths:
        s = nest_source(name, d)
        t = time.perf_counter()
        try:
            parse_string(s)
        except CxxParseError:
            pass
        ts.append((d, len(s), time.perf_counter() - t))
        if ts[-1][2] > budget:
            break
    return ts

def superpoly(ts, budget=20.0):
    # doubling the depth multiplies the time by more than 2^3.5 twice in a row (or the budget is blown)
    r = [b[2] / a[2] for a, b in zip(ts, ts[1:]) if a[2] > 0.002]
    run = best = 0
    for x in r:
        run = run + 1 if x > 11.3 else 0
        best = max(best, run)
    return best >= 2 or ts[-1][2] > budget

ts = family_times('template args fnptr suffix')
for x in ts: print(x)
sys.exit(1 if superpoly(ts) else 0)
