#!/usr/bin/env python
# replay for property C07 (written by the quick check); run with /verif/.venv/bin/python
import sys
sys.path.insert(0, '/verif')

import sys, time
from cxxheaderparser.simple import parse_string
from cxxheaderparser.errors import CxxParseError

def measure(prefix, unit, suffix, ks, budget=4.0):
    out = []
    for k in ks:
        s = prefix + unit * k + suffix
        best = None
        for _ in range(2):
            t = time.perf_counter()
            try:
                parse_string(s)
            except CxxParseError:
                pass
            dt = time.perf_counter() - t
            best = dt if best is None else min(best, dt)
        out.append((k, len(s), best))
        if best > budget:
            break
    return out

def exponential(times, floor=0.004, ratio=1.8, need=3):
    """>= `need` consecutive steps (k -> k+2) each multiplying the time by >= ratio, above the noise floor"""
    run = 0
    for (k0, _, t0), (k1, _, t1) in zip(times, times[1:]):
        if t0 >= floor and t1 / t0 >= ratio:
            run += 1
            if run >= need:
                return True
        else:
            run = 0
    return False

ts = measure('/*', '\n', '', [10, 12, 14, 16, 18, 20, 22, 24, 26, 28, 30, 32, 34, 36, 38, 40])
for k, n, t in ts: print(k, n, round(t, 4))
sys.exit(1 if exponential(ts) else 0)
