#!/usr/bin/env python
# replay for property C05 (written by the quick check); run with /verif/.venv/bin/python
import sys
sys.path.insert(0, '/verif')
from vf.props import c05
c05.MAXB, c05.MAXD = 2, 2
bad, text, skipped, decisions = c05.replay([4, 0, 0, -1, 0, 0, 0, 0, 0, 0, 0, 0, 0, 0, 0])
print(text); print('skipped blocks', skipped, 'decisions', decisions); print('->', bad)
sys.exit(1 if bad else 0)
