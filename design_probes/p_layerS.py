import typing
from crosshair.tracers import NoTracing
from cxxheaderparser.lexer import LexerTokenStream, Location
from cxxheaderparser._ply import lex as plylex
from cxxheaderparser.errors import CxxParseError
from cxxheaderparser.parser import CxxParser
from cxxheaderparser.simple import SimpleCxxVisitor


def mk(ty, va):
    t = plylex.LexToken()
    t.type = ty
    t.value = va
    t.lineno = 0
    t.lexpos = 0
    return t


class StubPly:
    """stands in for PlyLexer: hands out prepared tokens, tracks a symbolic line counter"""

    def __init__(self, toks, line0):
        self.toks = toks
        self.pos = 0
        self.filename = "f"
        self.line = line0

    def token(self):
        if self.pos >= len(self.toks):
            return None
        t = self.toks[self.pos]
        self.pos += 1
        if t.type == "NEWLINE":
            self.line += len(t.value)
        elif t.type in ("COMMENT_SINGLELINE", "COMMENT_MULTILINE"):
            self.line += t.value.count("\n")
        return t

    def current_location(self):
        return Location(self.filename, self.line)


LAYOUT = [
    [("WHITESPACE", " ")],
    [("NEWLINE", "\n")],
    [("COMMENT_MULTILINE", "/* c */")],
    [("COMMENT_SINGLELINE", "// c\n")],
    [("\\", "\\"), ("NEWLINE", "\n")],
    [("WHITESPACE", " "), ("\\", "\\"), ("NEWLINE", "\n")],
    [("NEWLINE", "\n"), ("\\", "\\"), ("NEWLINE", "\n")],
]

PROG = [
    ("struct", "struct"), ("NAME", "A"), ("{", "{"),
    ("int", "int"), ("*", "*"), ("NAME", "x"), ("=", "="), ("INT_CONST_DEC", "1"), (";", ";"),
    ("void", "void"), ("NAME", "f"), ("(", "("), ("int", "int"), ("NAME", "a"), (")", ")"), ("const", "const"), (";", ";"),
    ("}", "}"), ("NAME", "v"), (";", ";"),
]


def build(gap: int, lay: int):
    toks = []
    for i, (ty, va) in enumerate(PROG):
        if i == gap:
            for lt, lv in LAYOUT[lay]:
                toks.append(mk(lt, lv))
        else:
            toks.append(mk("WHITESPACE", " "))
        toks.append(mk(ty, va))
    return toks


def parse(toks, line0):
    v = SimpleCxxVisitor()
    with NoTracing():
        p = CxxParser("f", "", v, None)
    p.lex._lex = StubPly(toks, line0)
    p.parse()
    return v.data


def _layout(gap: int, lay: int, line0: int) -> bool:
    """
    pre: 1 <= gap < 20 and 0 <= lay < 7 and line0 >= 1
    post: _
    raises: CxxParseError
    """
    g = 1
    while g < 19:
        if gap == g:
            break
        g += 1
    l = 0
    while l < 6:
        if lay == l:
            break
        l += 1
    base = parse(build(0, 0), line0)
    got = parse(build(g, l), line0)
    return got == base
