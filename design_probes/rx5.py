"""Prototype 5: C08 literal VC - every literal of a reference grammar lexes as one token of the right class."""
import re
import sys
import time
import z3
import re._parser as sp
from rx2 import ZDom, Comp, master_of, first_rule
from rx3 import Amb
from cxxheaderparser.lexer import PlyLexer

N = int(sys.argv[1]) if len(sys.argv) > 1 else 7
lx = PlyLexer("f")
master, names, rules = master_of(lx)
name_idx = {nm: i for i, (nm, _) in enumerate(rules)}

isuf = r"([uU](ll|LL|l|L)?|(ll|LL|l|L)[uU]?)?"
fsuf = r"[fFlL]?"
SPECS = {
    "t_INT_CONST_HEX": r"0[xX][0-9a-fA-F]+('[0-9a-fA-F]+)*" + isuf,
    "t_INT_CONST_BIN": r"0[bB][01]+('[01]+)*" + isuf,
    "t_INT_CONST_OCT": r"0[0-7]*('[0-7]+)*" + isuf,  # includes plain 0
    "t_INT_CONST_DEC": r"[1-9][0-9]*('[0-9]+)*" + isuf,
    "t_FLOAT_CONST": r"(([0-9]+('[0-9]+)*)?\.[0-9]+('[0-9]+)*|[0-9]+('[0-9]+)*\.)([eE][-+]?[0-9]+)?" + fsuf
    + r"|[0-9]+('[0-9]+)*[eE][-+]?[0-9]+" + fsuf,
    "t_HEX_FLOAT_CONST": r"0[xX](([0-9a-fA-F]+)?\.[0-9a-fA-F]+|[0-9a-fA-F]+\.?)[pP][-+]?[0-9]+" + fsuf,
}

zd = ZDom(N)
comp = Comp(zd)
rule0, end0 = first_rule(comp, rules, 0)
s = z3.Solver()
for ch in zd.c:
    s.add(ch >= 0, ch <= 0x10FFFF)


def follow_ok(ch):
    # a character that cannot continue a pp-number / identifier
    bad = z3.Or(z3.And(ch >= 48, ch <= 57), z3.And(ch >= 65, ch <= 90), z3.And(ch >= 97, ch <= 122),
                ch == 95, ch == 39, ch == 46, ch > 127)
    return z3.Not(bad)


for cls, spec in SPECS.items():
    tree = sp.parse(spec, 0)
    t0 = time.time()
    amb = Amb(comp)
    ends, _ = amb.seq(tree, 0, 0)
    nq = 0
    bad = None
    for L in range(1, N):
        cond = ends.get(L, False)
        if cond is False:
            continue
        s.push()
        s.add(cond)  # c[0:L] is a literal of the reference grammar
        s.add(follow_ok(zd.c[L]))
        # reachability witness
        assert str(s.check()) == "sat", (cls, L)
        s.add(z3.Not(z3.And(rule0 == name_idx[cls], end0 == L)))
        r = s.check()
        nq += 2
        if str(r) == "sat":
            m = s.model()
            w = "".join(chr(m.eval(ch, model_completion=True).as_long()) for ch in zd.c)
            mm = master.match(w, 0)
            bad = (L, w[:L], w[L], rules[m.eval(rule0).as_long()][0] if m.eval(rule0).as_long() >= 0 else None,
                   m.eval(end0), "real:", mm and (names[mm.lastindex], mm.end()))
            s.pop()
            break
        s.pop()
    print(f"{cls:20s} n={N} queries={nq} {time.time()-t0:.1f}s ->", "HOLDS" if bad is None else f"VIOLATION {bad}")
