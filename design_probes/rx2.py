"""Prototype 2: CPS/DAG compilation of python `re` backtracking semantics, generic over a value domain.

Domain Z: z3 terms.  Domain C: concrete python values (used to validate the compiler against `re`).
run(cont, i) -> end position of the overall first successful match (>=0) or -1.
"""
import re
import sys
import time
import itertools
import random
import z3
import re._parser as sp
import re._constants as sc


class ZDom:
    def __init__(self, n):
        self.n = n
        self.c = [z3.Int(f"c{i}") for i in range(n)]

    def ch(self, i):
        return self.c[i]

    def eq(self, a, v):
        return a == v

    def rng(self, a, lo, hi):
        return z3.And(a >= lo, a <= hi)

    def or_(self, xs):
        xs = list(xs)
        if not xs:
            return False
        return z3.Or(xs) if len(xs) > 1 else xs[0]

    def and_(self, xs):
        xs = [x for x in xs if x is not True]
        if any(x is False for x in xs):
            return False
        if not xs:
            return True
        return z3.And(xs) if len(xs) > 1 else xs[0]

    def not_(self, a):
        if a is True:
            return False
        if a is False:
            return True
        return z3.Not(a)

    def ite(self, c, a, b):
        if c is True:
            return a
        if c is False:
            return b
        if isinstance(a, int) and isinstance(b, int) and a == b:
            return a
        return z3.If(c, a, b)

    def ge0(self, a):
        if isinstance(a, int):
            return a >= 0
        return a >= 0

    def add(self, a, b):
        return a + b


class CDom:
    def __init__(self, s):
        self.s = s
        self.n = len(s)

    def ch(self, i):
        return ord(self.s[i])

    def eq(self, a, v):
        return a == v

    def rng(self, a, lo, hi):
        return lo <= a <= hi

    def or_(self, xs):
        return any(xs)

    def and_(self, xs):
        return all(xs)

    def not_(self, a):
        return not a

    def ite(self, c, a, b):
        return a if c else b

    def ge0(self, a):
        return a >= 0

    def add(self, a, b):
        return a + b


_DIGITS = None


def digit_ranges():
    global _DIGITS
    if _DIGITS is None:
        pat = re.compile(r"\d")
        out = []
        start = None
        for cp in range(0x110000):
            ok = pat.match(chr(cp)) is not None
            if ok and start is None:
                start = cp
            if not ok and start is not None:
                out.append((start, cp - 1))
                start = None
        _DIGITS = out
    return _DIGITS


class Comp:
    def __init__(self, dom):
        self.d = dom
        self.n = dom.n
        self.memo = {}
        self.smemo = {}
        self.keep = []

    # ----- character predicates
    def in_item(self, ch, item):
        op, av = item
        d = self.d
        if op is sc.LITERAL:
            return d.eq(ch, av)
        if op is sc.RANGE:
            return d.rng(ch, av[0], av[1])
        if op is sc.CATEGORY:
            if av is sc.CATEGORY_DIGIT:
                return d.or_([d.rng(ch, lo, hi) for lo, hi in digit_ranges()])
            if av is sc.CATEGORY_SPACE:
                return d.or_([d.eq(ch, x) for x in (9, 10, 11, 12, 13, 28, 29, 30, 31, 32, 133, 160)])
            raise NotImplementedError(av)
        raise NotImplementedError(op)

    def pred(self, ch, op, av):
        d = self.d
        if op is sc.LITERAL:
            return d.eq(ch, av)
        if op is sc.NOT_LITERAL:
            return d.not_(d.eq(ch, av))
        if op is sc.ANY:
            return d.not_(d.eq(ch, 10))
        if op is sc.IN:
            items = list(av)
            neg = bool(items) and items[0][0] is sc.NEGATE
            if neg:
                items = items[1:]
            r = d.or_([self.in_item(ch, it) for it in items])
            return d.not_(r) if neg else r
        raise NotImplementedError(op)

    # ----- continuations: nested tuples
    #   ("end",)                      -> succeed, return position
    #   ("seq", id(items), k, parent) -> run items[k:], then parent
    #   ("rep", id(node), done, istart, parent)
    def seq(self, src, k, parent):
        # stable tuple per source object
        self.tups = getattr(self, "tups", {})
        self.items_by_id = getattr(self, "items_by_id", {})
        ent = self.tups.get(id(src))
        if ent is None:
            items = src if isinstance(src, tuple) else tuple(src)
            ent = (src, items)
            self.tups[id(src)] = ent
            self.items_by_id[id(items)] = items
        items = ent[1]
        return ("seq", id(items), k, parent)

    def run(self, cont, i):
        key = (cont, i)
        r = self.memo.get(key)
        if r is not None:
            return r
        r = self._run(cont, i)
        self.memo[key] = r
        return r

    def _run(self, cont, i):
        d = self.d
        kind = cont[0]
        if kind == "end":
            return i
        if kind == "rep":
            _, nid, done, istart, parent = cont
            node = self.items_by_id[nid]
            if i == istart:
                # zero-width iteration: stop looping
                return self.run(parent, i)
            return self.rep(node, done, i, parent)
        _, iid, k, parent = cont
        items = self.items_by_id[iid]
        if k == len(items):
            return self.run(parent, i)
        op, av = items[k]
        nxt = ("seq", iid, k + 1, parent)
        if op in (sc.LITERAL, sc.NOT_LITERAL, sc.ANY, sc.IN):
            if i >= self.n:
                return -1
            return d.ite(self.pred(d.ch(i), op, av), self.run(nxt, i + 1), -1)
        if op is sc.SUBPATTERN:
            return self.run(self.seq(av[3], 0, nxt), i)
        if op is sc.BRANCH:
            res = -1
            for alt in reversed(av[1]):
                r = self.run(self.seq(alt, 0, nxt), i)
                if r is -1:
                    continue
                res = d.ite(d.ge0(r), r, res)
            return res
        if op in (sc.MAX_REPEAT, sc.MIN_REPEAT):
            node = items[k]
            self.items_by_id[id(node)] = node
            return self.rep(node, 0, i, nxt)
        if op is sc.AT:
            if av is sc.AT_END:
                if i == self.n:
                    return self.run(nxt, i)
                if i == self.n - 1:
                    return d.ite(d.eq(d.ch(i), 10), self.run(nxt, i), -1)
                return -1
            if av is sc.AT_BEGINNING:
                return self.run(nxt, i) if i == 0 else -1
            raise NotImplementedError(av)
        if op in (sc.ASSERT, sc.ASSERT_NOT):
            direction, p = av
            assert direction == 1
            r = self.run(self.seq(p, 0, ("end",)), i)
            ok = d.ge0(r)
            if op is sc.ASSERT_NOT:
                ok = d.not_(ok)
            return d.ite(ok, self.run(nxt, i), -1)
        raise NotImplementedError(op)

    def rep(self, node, done, i, parent):
        d = self.d
        op, (lo, hi, body) = node
        unbounded = hi is sc.MAXREPEAT
        more = -1
        if unbounded or done < hi:
            nd = min(done + 1, lo) if unbounded else done + 1
            more = self.run(self.seq(body, 0, ("rep", id(node), nd, i, parent)), i)
        stop = self.run(parent, i) if done >= lo else -1
        if op is sc.MAX_REPEAT:
            first, second = more, stop
        else:
            first, second = stop, more
        if first is -1:
            return second
        return d.ite(d.ge0(first), first, second)


def master_of(lexer):
    L = lexer.lex
    assert len(L.lexre) == 1
    master, findex = L.lexre[0]
    tree = sp.parse(master.pattern, master.flags)
    ((op, (_, alts)),) = list(tree)
    names = {v: k for k, v in master.groupindex.items()}
    rules = []
    for a in alts:
        a = tuple(a)
        assert len(a) == 1 and a[0][0] is sc.SUBPATTERN
        rules.append((names[a[0][1][0]], a))
    return master, names, rules


def first_rule(comp, rules, i):
    """(rule index, end) of master regex at position i"""
    d = comp.d
    rule, end = -1, -1
    for idx in range(len(rules) - 1, -1, -1):
        nm, a = rules[idx]
        r = comp.run(comp.seq(a, 0, ("end",)), i)
        if r is -1:
            continue
        ok = d.ge0(r)
        rule = d.ite(ok, idx, rule)
        end = d.ite(ok, r, end)
    return rule, end


if __name__ == "__main__":
    N = int(sys.argv[1]) if len(sys.argv) > 1 else 6
    from cxxheaderparser.lexer import PlyLexer

    lx = PlyLexer("f")
    master, names, rules = master_of(lx)
    name_idx = {nm: i for i, (nm, _) in enumerate(rules)}

    # ---- validate compiler concretely against re
    alpha = "0x1.eE+-'\"\\ulL8/*\n #a_<>:&|[]fpP9\r"
    rnd = random.Random(int(sys.argv[2]) if len(sys.argv) > 2 else 1)
    t0 = time.time()
    nchk = 0
    samples = ["".join(p) for p in itertools.product("0x.'\"\\/*\na1e+L", repeat=3)]
    samples += ["".join(rnd.choice(alpha) for _ in range(rnd.randint(1, N))) for _ in range(3000)]
    for w in samples:
        comp = Comp(CDom(w))
        for pos in range(len(w)):
            rule, end = first_rule(comp, rules, pos)
            m = master.match(w, pos)
            exp = (-1, -1) if not m else (name_idx[names[m.lastindex]], m.end())
            if (rule, end) != exp:
                print("MISMATCH", repr(w), pos, (rule, end), exp)
                sys.exit(1)
            nchk += 1
    print(f"validated {nchk} (string,pos) pairs in {time.time()-t0:.1f}s")

    # ---- symbolic compile
    t0 = time.time()
    zd = ZDom(N)
    comp = Comp(zd)
    toks = [first_rule(comp, rules, i) for i in range(N)]
    print(f"symbolic compile n={N}: {time.time()-t0:.2f}s, memo entries {len(comp.memo)}")

    s = z3.Solver()
    for ch in zd.c:
        s.add(ch >= 0, ch <= 0x10FFFF)

    # query 1: line accounting VC
    counting = {"t_NEWLINE", "t_COMMENT_SINGLELINE", "t_COMMENT_MULTILINE"}
    errors = {"t_UNMATCHED_QUOTE", "t_BAD_CHAR_CONST", "t_BAD_STRING_LITERAL", "t_BAD_CONST_OCT", "t_PP_DIRECTIVE"}
    rule0, end0 = toks[0]
    bad = []
    for nm, idx in name_idx.items():
        if nm in counting or nm in errors:
            continue
        for k in range(N):
            bad.append(z3.And(rule0 == idx, zd.c[k] == 10, end0 > k))
    s.push()
    s.add(z3.Or(bad))
    t0 = time.time()
    r = s.check()
    print("VC newline inside non-counting rule:", r, f"{time.time()-t0:.2f}s")
    if str(r) == "sat":
        m = s.model()
        w = "".join(chr(m.eval(ch, model_completion=True).as_long()) for ch in zd.c)
        print("   ", repr(w), rules[m.eval(rule0).as_long()][0])
    s.pop()

    # query 2 (C16-like): two tokens a=c[0:p], b=c[p:n] each lexing alone to one token,
    # concatenation lexes differently. (alone = separate encoders over the same chars)
    t0 = time.time()
    found = []
    for p in range(1, N):
        za = ZDom(p)
        za.c = zd.c[:p]
        zb = ZDom(N - p)
        zb.c = zd.c[p:]
        ca, cb = Comp(za), Comp(zb)
        ra, ea = first_rule(ca, rules, 0)
        rb, eb = first_rule(cb, rules, 0)
        rab, eab = toks[0]
        rab2, eab2 = toks[p]
        s.push()
        s.add(ea == p, eb == N - p)  # each piece is exactly one token
        for nm in errors | {"t_WHITESPACE", "t_NEWLINE", "t_COMMENT_SINGLELINE", "t_COMMENT_MULTILINE"}:
            s.add(ra != name_idx[nm], rb != name_idx[nm])
        # joined string does not lex to the same two tokens
        s.add(z3.Not(z3.And(rab == ra, eab == p, rab2 == rb, eab2 == N)))
        r = s.check()
        if str(r) == "sat":
            m = s.model()
            w = "".join(chr(m.eval(ch, model_completion=True).as_long()) for ch in zd.c)
            found.append((p, w[:p], w[p:], rules[m.eval(ra).as_long()][0], rules[m.eval(rb).as_long()][0]))
        s.pop()
    print(f"fusing pairs query: {time.time()-t0:.2f}s")
    for f in found:
        print("   ", f)
