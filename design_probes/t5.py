"""survey: C17 round trip density over small type trees (concrete, just to size the known-findings problem)"""
import itertools
from cxxheaderparser.simple import parse_string
from cxxheaderparser.errors import CxxParseError
from cxxheaderparser.types import *

INT = lambda **kw: Type(PQName([FundamentalSpecifier("int")]), **kw)


def wrap(t):
    out = []
    if not isinstance(t, (Reference, MoveReference)):
        if not isinstance(t, FunctionType):
            out.append(Array(t, None))
            out.append(Array(t, Value([Token("3")])))
        if not isinstance(t, Array):
            pass
        out.append(Pointer(t))
        out.append(Pointer(t, const=True))
        if not isinstance(t, FunctionType):
            pass
        out.append(Reference(t))
        out.append(MoveReference(t))
    if not isinstance(t, (FunctionType, Array)):
        out.append(FunctionType(t, []))
        out.append(FunctionType(t, [Parameter(INT(), "a")]))
    return out


def sig(t):
    if isinstance(t, Type):
        return "T" + ("c" if t.const else "")
    if isinstance(t, Pointer):
        return "P" + ("c" if t.const else "") + "(" + sig(t.ptr_to) + ")"
    if isinstance(t, Reference):
        return "R(" + sig(t.ref_to) + ")"
    if isinstance(t, MoveReference):
        return "M(" + sig(t.moveref_to) + ")"
    if isinstance(t, Array):
        return "A" + ("n" if t.size else "") + "(" + sig(t.array_of) + ")"
    if isinstance(t, FunctionType):
        return f"F{len(t.parameters)}(" + sig(t.return_type) + ")"


level = [INT(), INT(const=True)]
trees = list(level)
for d in range(3):
    nxt = []
    for t in level:
        nxt.extend(wrap(t))
    trees.extend(nxt)
    level = nxt

bad = {}
tot = 0
for t in trees:
    if isinstance(t, FunctionType):
        continue  # a variable cannot have function type; only via pointer/ref
    tot += 1
    try:
        src = t.format_decl("x") + ";"
    except Exception as e:
        bad.setdefault("FORMAT-EXC " + type(e).__name__, []).append(sig(t))
        continue
    try:
        d = parse_string(src)
        vs = d.namespace.variables
        fs = d.namespace.functions
        if len(vs) == 1 and vs[0].type == t and vs[0].name.segments[-1].name == "x":
            continue
        got = sig(vs[0].type) if vs else ("FUNCTION" if fs else "NOTHING")
        bad.setdefault("MISMATCH", []).append((sig(t), src, got))
    except CxxParseError as e:
        bad.setdefault("PARSE-ERR", []).append((sig(t), src))
print("trees", tot)
for k, v in bad.items():
    print(k, len(v))
    for x in v[:14]:
        print("    ", x)
