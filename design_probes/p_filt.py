from typing import List
from cxxheaderparser import preprocessor


class FakeIO:
    def __init__(self, *a):
        self.parts = []

    def write(self, s):
        self.parts.append(s)

    def seek(self, n):
        pass

    def read(self):
        return self.parts


class FakeIOMod:
    StringIO = FakeIO


def _gcc(f: str, g: str) -> bool:
    """
    pre: 1 <= len(f) <= 3 and 1 <= len(g) <= 4
    pre: all(c in "ab/." for c in f) and all(c in "ab/." for c in g)
    post: _
    """
    old = preprocessor.io
    preprocessor.io = FakeIOMod
    try:
        lines = ['# 1 "' + g + '"\n', "int x;\n"]
        out = preprocessor._gcc_filter(f, iter(lines))
    finally:
        preprocessor.io = old
    kept = len(out) == 2
    return kept == (g == f)
