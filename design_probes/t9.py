"""survey: C04 stream invariants on the pool, plus exception injection at every callback index (concrete)"""
import inspect
import typing
from cxxheaderparser.errors import CxxParseError
from cxxheaderparser.parser import CxxParser
from cxxheaderparser.parserstate import ClassBlockState, ExternBlockState, NamespaceBlockState
from cxxheaderparser.simple import SimpleCxxVisitor, parse_string
from cxxheaderparser import visitor as vis
from t8 import POOL

STARTS = {"on_namespace_start": "on_namespace_end", "on_class_start": "on_class_end", "on_extern_block_start": "on_extern_block_end"}
ENDS = set(STARTS.values())
hints = {}
for name, fn in inspect.getmembers(vis.CxxVisitor, inspect.isfunction):
    if name.startswith("on_"):
        ann = typing.get_type_hints(fn)
        hints[name] = ann["state"]

KIND = {
    "NamespaceBlockState": (NamespaceBlockState,),
    "ClassBlockState": (ClassBlockState,),
    "ExternBlockState": (ExternBlockState,),
}


def allowed(name):
    h = hints[name]
    args = typing.get_args(h)
    out = []
    for a in args or (h,):
        o = typing.get_origin(a) or a
        out.append(o)
    return tuple(out)


class Rec(SimpleCxxVisitor):
    def __init__(self, raise_at=None):
        self.events = []
        self.raise_at = raise_at

    def __getattribute__(self, name):
        if name.startswith("on_"):
            base = object.__getattribute__(self, name)

            def cb(state, *payload):
                self.events.append((name, state, payload))
                if self.raise_at is not None and len(self.events) - 1 == self.raise_at:
                    raise KeyError("injected")
                return base(state, *payload)

            return cb
        return object.__getattribute__(self, name)


def check_stream(src):
    v = Rec()
    p = CxxParser("f", src, v, None)
    p.parse()
    ev = v.events
    problems = []
    if not ev or ev[0][0] != "on_parse_start" or sum(1 for e in ev if e[0] == "on_parse_start") != 1:
        problems.append("parse_start")
    stack = [ev[0][1]]
    for name, state, payload in ev[1:]:
        if not isinstance(state, allowed(name)):
            problems.append(f"{name}: state kind {type(state).__name__} not in {allowed(name)}")
        if name in STARTS:
            if state.parent is not stack[-1]:
                problems.append(f"{name}: parent link")
            stack.append(state)
        elif name in ENDS:
            if state is not stack[-1]:
                problems.append(f"{name}: end does not match innermost open")
            else:
                stack.pop()
        else:
            if state is not stack[-1]:
                problems.append(f"{name}: not innermost state")
    if len(stack) != 1:
        problems.append("unclosed blocks at end")
    if v.data != parse_string(src):
        problems.append("fold differs")
    return len(ev), problems


tot = 0
inj = 0
for a in POOL:
    for b in POOL[:12]:
        src = a + "\n" + b
        n, problems = check_stream(src)
        tot += 1
        if problems:
            print("STREAM", repr(src), problems[:3])
        for k in range(1, n):
            v = Rec(raise_at=k)
            p = CxxParser("f", src, v, None)
            try:
                p.parse()
                print("INJ no error", repr(src), k)
            except CxxParseError as e:
                if not isinstance(e.__cause__, KeyError) or len(v.events) != k + 1:
                    print("INJ bad", repr(src), k, type(e.__cause__), len(v.events))
            except Exception as e:
                print("INJ other exc", repr(src), k, type(e))
            inj += 1
print("programs", tot, "injections", inj)
