"""C10 arithmetic with CrossHair: real t_PP_DIRECTIVE + current_location, symbolic lineno and directive number."""
from crosshair.tracers import NoTracing
from cxxheaderparser import lexer as lexmod
from cxxheaderparser._ply import lex as plylex


class FakeNum:
    def __init__(self, n):
        self.n = n

    def __int__(self):
        return self.n

    def __index__(self):
        return self.n


class FakeMatch:
    def __init__(self, n, f):
        self.n = n
        self.f = f

    def group(self, k):
        if k == 2:
            return FakeNum(self.n)
        if k == 3:
            return self.f
        raise AssertionError(k)


class FakeRe:
    def __init__(self, n, f):
        self.n = n
        self.f = f

    def match(self, s):
        return FakeMatch(self.n, self.f)


def _line(L: int, N: int, d: int, off0: int, fname: str) -> bool:
    """
    pre: L >= 1 and N >= 0 and d >= 1
    post: _
    """
    with NoTracing():
        lx = lexmod.PlyLexer("orig.h")
    lx.line_offset = off0
    lx.lex.lineno = L
    old = lexmod._line_re
    lexmod._line_re = FakeRe(N, fname)
    try:
        t = plylex.LexToken()
        t.type = "PP_DIRECTIVE"
        t.value = "#line"
        t.lineno = L
        t.lexpos = 0
        r = lx.t_PP_DIRECTIVE(t)
    finally:
        lexmod._line_re = old
    # d physical lines later
    lx.lex.lineno = L + d
    loc = lx.current_location()
    return r is None and loc.filename == fname and loc.lineno == N + d - 1
