"""C03(a) inductive step: arbitrary class pre-state (symbolic access string, symbolic anon_id), one member."""
import typing
from crosshair.tracers import NoTracing
from cxxheaderparser.lexer import TokenStream, LexToken, Location
from cxxheaderparser._ply import lex as plylex
from cxxheaderparser.errors import CxxParseError
from cxxheaderparser.parser import CxxParser
from cxxheaderparser.parserstate import ClassBlockState, ParsedTypeModifiers
from cxxheaderparser.simple import SimpleCxxVisitor
from cxxheaderparser.types import ClassDecl, PQName, NameSpecifier
from p_sym import mk, ListStream

MEMBERS = [
    "int x ;",
    "void f ( ) const ;",
    "A ( ) ;",
    "~A ( ) ;",
    "typedef int T ;",
    "using U = int ;",
    "enum E { P } ;",
    "struct N { int z ; private : int w ; } ;",
    "struct { int q ; } anon ;",
    "class F ;",
    "public :",
    "static int s ;",
]

KW = {"int", "void", "const", "typedef", "using", "enum", "struct", "class", "private", "public", "static"}


def toks_of(text, line):
    out = []
    for w in text.split():
        ty = w if (w in KW or not (w[0].isalpha() or w[0] in "_~")) else "NAME"
        out.append(mk(ty, w, line))
    return out


def collect_access(scope):
    acc = []
    for lst in (scope.fields, scope.methods, scope.typedefs, scope.using_alias, scope.enums, scope.forward_decls):
        for o in lst:
            acc.append(o.access)
    for c in scope.classes:
        acc.append(c.class_decl.access)
    return acc


def _step(member: int, access: str, anon0: int, line: int) -> bool:
    """
    pre: 0 <= member < 12 and anon0 >= 0 and line >= 1
    pre: len(access) <= 9
    post: _
    raises: CxxParseError
    """
    m = 0
    while m < 11:
        if member == m:
            break
        m += 1
    with NoTracing():
        v = SimpleCxxVisitor()
        p = CxxParser("f", "", v, None)
    p.anon_id = anon0
    decl = ClassDecl(PQName([NameSpecifier("A")], "struct"))
    st = ClassBlockState(p.state, Location("f", line), decl, access, False, ParsedTypeModifiers({}, {}, {}))
    p._setup_state(st)
    v.on_class_start(st)
    p.lex = ListStream(toks_of(MEMBERS[m], line))
    p.parse()
    scope = st.user_data
    if MEMBERS[m] == "public :":
        return p.state is st and st.access == "public"
    ok = p.state is st and st.access == access and p.visitor is v
    for a in collect_access(scope):
        ok = ok and a == access
    if "anon" in MEMBERS[m]:
        ok = ok and p.anon_id == anon0 + 1 and scope.classes[0].class_decl.typename.segments[0].id == anon0 + 1
        ok = ok and scope.fields[0].type.typename.segments[0].id == anon0 + 1
    else:
        ok = ok and p.anon_id == anon0
    return ok
