import time
import z3

f = z3.String("f")
g = z3.String("g")
num = z3.String("num")
flags = z3.String("flags")
line = z3.Concat(z3.StringVal("# "), num, z3.StringVal(' "'), g, z3.StringVal('"'), flags, z3.StringVal("\n"))

name_re = z3.Plus(z3.Union(z3.Range("a", "c"), z3.Re("/"), z3.Re("."), z3.Re(" "), z3.Re("x")))
flag_re = z3.Star(z3.Union(z3.Re(" 1"), z3.Re(" 2"), z3.Re(" 3"), z3.Re(" 4")))
num_re = z3.Plus(z3.Range("0", "9"))


def base(s):
    s.add(z3.InRe(f, name_re), z3.InRe(g, name_re), z3.InRe(num, num_re), z3.InRe(flags, flag_re))
    s.add(z3.Length(f) <= 8, z3.Length(g) <= 8, z3.Length(num) <= 3, z3.Length(flags) <= 4)


for variant in ("current", "fixed"):
    s = z3.Solver()
    s.set("timeout", 60000)
    base(s)
    lq = z3.LastIndexOf(line, z3.StringVal('"'))
    head = z3.SubString(line, 0, lq)
    if variant == "current":
        keep = z3.SuffixOf(f, head)
    else:
        keep = z3.SuffixOf(z3.Concat(z3.StringVal('"'), f), head)
    # violation: keep != (g == f)
    s.add(lq >= 0)
    s.add(keep != (g == f))
    t = time.time()
    r = s.check()
    print(variant, r, round(time.time() - t, 2))
    if str(r) == "sat":
        m = s.model()
        print("   f=", m[f], "g=", m[g], "line=", m.eval(line))
