import sys
from cxxheaderparser.simple import parse_string
from cxxheaderparser.errors import CxxParseError

cases = [
    "int x;\n\\\nint y;",
    "int x; \\\nint y;",
    "int \\\n x;",
    "\\\nint x;",
    "int x; // c \\\nint y;",
    "struct A { void f() &; void g() &&; };",
    "void f() throw(int); struct B { void g() throw(int); };",
    "/// doc\n[[nodiscard]] int f();\nint g();",
    "/// doc\nstatic_assert(1);\nint g();",
    "int a, /** t */ b;",
    "enum E { A, /// docA\n B };",
    "using namespace a::b; namespace c = ::d::e;",
    "#pragma once // c\nint x;",
    "#include <a> // c\nint x;",
    "#include <a> /* c */\nint x;",
]
for c in cases:
    try:
        d = parse_string(c)
        print("OK  ", repr(c))
        ns = d.namespace
        for v in ns.variables + ns.functions:
            print("      ", v.name.segments[-1].name, "dox=", repr(v.doxygen))
        for cs in ns.classes:
            for m in cs.methods:
                print("      ", m.name.segments[-1].name, "ref=", m.ref_qualifier, "throw=", m.throw and m.throw.format())
        for f in ns.functions:
            if f.throw:
                print("       fn throw", f.throw.format())
        for e in ns.enums:
            print("      ", [(x.name, x.doxygen) for x in e.values])
        print("      ", d.includes, [p.content.format() for p in d.pragmas])
    except CxxParseError as e:
        print("ERR ", repr(c), "->", e)
