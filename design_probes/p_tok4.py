import typing
from typing import List, Tuple
from crosshair.tracers import NoTracing, ResumedTracing
from p_tok3 import SymStream, A3, ref_close
from cxxheaderparser.parser import CxxParser
from cxxheaderparser.simple import SimpleCxxVisitor


def _discard(kinds: List[int]) -> int:
    """
    pre: len(kinds) == 8
    pre: all(0 <= k < 3 for k in kinds)
    post: _ == ref_close(kinds)
    """
    with NoTracing():
        v = SimpleCxxVisitor()
        p = CxxParser("f", "", v, None)
        p.lex = SymStream(kinds, A3)
    try:
        p._discard_contents("{", "}")
    except EOFError:
        return -1
    return p.lex.pos


def _discard_ints(k0: int, k1: int, k2: int, k3: int, k4: int, k5: int, k6: int, k7: int) -> int:
    """
    pre: 0 <= k0 < 3 and 0 <= k1 < 3 and 0 <= k2 < 3 and 0 <= k3 < 3
    pre: 0 <= k4 < 3 and 0 <= k5 < 3 and 0 <= k6 < 3 and 0 <= k7 < 3
    post: _ == ref_close([k0, k1, k2, k3, k4, k5, k6, k7])
    """
    kinds = [k0, k1, k2, k3, k4, k5, k6, k7]
    with NoTracing():
        v = SimpleCxxVisitor()
        p = CxxParser("f", "", v, None)
        p.lex = SymStream(kinds, A3)
    try:
        p._discard_contents("{", "}")
    except EOFError:
        return -1
    return p.lex.pos
