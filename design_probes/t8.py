"""survey: C12 parse(A+B) == merge(parse(A), parse(B)) on a pool (concrete)"""
import copy
import dataclasses
import itertools
from cxxheaderparser.simple import parse_string, NamespaceScope, ParsedData
from cxxheaderparser.errors import CxxParseError
from cxxheaderparser.types import AnonymousName

POOL = [
    "int a;",
    "static const int *b = 1, c[2];",
    "void f(int x = 1);",
    "template <typename T> T g(T) { return 0; }",
    "template <> struct S<int> { int m; private: int n; };",
    "struct { int q; } anon1, *anon2;",
    "typedef struct { int w; } TD;",
    "enum E { A, B = 2 } e1;",
    "enum class F : int;",
    "namespace N { int z; }",
    "namespace N { int y; }",
    "namespace a::b { int k; }",
    "namespace a { namespace b { int j; } }",
    "inline namespace I { int i; }",
    "namespace { int anon; }",
    "extern \"C\" { int q1; void q2(); }",
    "extern \"C\" int q3;",
    "using namespace std;",
    "using std::string;",
    "using U = int;",
    "template <typename T> using V = T*;",
    "namespace NA = a::b;",
    "template <class T> concept C = true;",
    "template class std::vector<int>;",
    "extern template class std::vector<long>;",
    "template <class T> S(T) -> S<T>;",
    "void S<int>::method() {}",
    "#include <x>\n",
    "#pragma once\n",
    "/// doc\nint documented;",
    "[[deprecated]] int attr1;",
    "static_assert(true);",
    "class Fwd;",
    "typedef void (*fp)(void);",
    "int (*arr[3])(int);",
    "auto h() -> int;",
    "struct B1 {}; struct D : public B1, virtual private B2 { D(); ~D(); operator int(); friend class X; };",
]


def shift_anon(o, k):
    if isinstance(o, AnonymousName):
        o.id += k
    elif dataclasses.is_dataclass(o):
        for f in dataclasses.fields(o):
            shift_anon(getattr(o, f.name), k)
    elif isinstance(o, list):
        for x in o:
            shift_anon(x, k)
    elif isinstance(o, dict):
        for x in o.values():
            shift_anon(x, k)


def count_anon(o, seen=None):
    seen = set() if seen is None else seen
    if isinstance(o, AnonymousName):
        seen.add(o.id)
    elif dataclasses.is_dataclass(o):
        for f in dataclasses.fields(o):
            count_anon(getattr(o, f.name), seen)
    elif isinstance(o, list):
        for x in o:
            count_anon(x, seen)
    elif isinstance(o, dict):
        for x in o.values():
            count_anon(x, seen)
    return seen


def merge_ns(a: NamespaceScope, b: NamespaceScope):
    for f in dataclasses.fields(NamespaceScope):
        va, vb = getattr(a, f.name), getattr(b, f.name)
        if isinstance(va, list):
            va.extend(vb)
        elif isinstance(va, dict):
            for k, nb in vb.items():
                if k in va:
                    merge_ns(va[k], nb)
                    va[k].inline = nb.inline
                    va[k].doxygen = nb.doxygen
                else:
                    va[k] = nb
    return a


def merge(a: ParsedData, b: ParsedData):
    a = copy.deepcopy(a)
    b = copy.deepcopy(b)
    ids = count_anon(a)
    shift_anon(b, max(ids) if ids else 0)
    merge_ns(a.namespace, b.namespace)
    a.pragmas.extend(b.pragmas)
    a.includes.extend(b.includes)
    return a


single = {}
for s in POOL:
    try:
        single[s] = parse_string(s)
    except CxxParseError as e:
        print("POOL ERR", repr(s), e)
bad = 0
n = 0
for a, b in itertools.product(single, single):
    n += 1
    try:
        got = parse_string(a + "\n" + b)
    except CxxParseError as e:
        print("ERR", repr(a), repr(b), str(e)[-60:])
        bad += 1
        continue
    want = merge(single[a], single[b])
    if got != want:
        bad += 1
        print("DIFF", repr(a), "+", repr(b))
print("pairs", n, "bad", bad)
