"""survey: C11 (doc attachment) and C12 (concatenation) on small pools, concrete"""
import dataclasses
import itertools
from cxxheaderparser.simple import parse_string
from cxxheaderparser.errors import CxxParseError

DECLS = {
    "var": "int {n};",
    "fn": "void {n}();",
    "cls": "struct {n} {{}};",
    "enum": "enum {n} {{ {n}A }};",
    "typedef": "typedef int {n};",
    "using": "using {n} = int;",
    "ns": "namespace {n} {{}}",
    "tmpl": "template <typename T> T {n}(T);",
    "attr": "[[nodiscard]] int {n}();",
    "fwd": "struct {n};",
}
ARR = {
    "above": "/// DOC{n}\n{d}\n",
    "detached": "/// DOC{n}\n\n{d}\n",
    "trailing": "{d} ///< DOC{n}\n",
    "plain": "// DOC{n}\n{d}\n",
    "none": "{d}\n",
    "block": "/** DOC{n} */\n{d}\n",
}


def docs(data):
    out = {}

    def walk(o):
        if dataclasses.is_dataclass(o):
            nm = None
            for f in dataclasses.fields(o):
                v = getattr(o, f.name)
                walk(v)
            if hasattr(o, "doxygen"):
                key = None
                for attr in ("name", "typename", "alias"):
                    if hasattr(o, attr):
                        v = getattr(o, attr)
                        key = v if isinstance(v, str) else getattr(v.segments[-1], "name", None)
                        break
                out[key] = o.doxygen
        elif isinstance(o, list):
            for x in o:
                walk(x)
        elif isinstance(o, dict):
            for k, x in o.items():
                if hasattr(x, "doxygen"):
                    out[k] = x.doxygen
                walk(x)

    walk(data)
    return out


bad = []
n = 0
for (k1, d1), (a1, f1), (k2, d2), (a2, f2) in itertools.product(DECLS.items(), ARR.items(), DECLS.items(), ARR.items()):
    src = f1.format(n="1", d=d1.format(n="X1")) + f2.format(n="2", d=d2.format(n="X2"))
    n += 1
    try:
        got = docs(parse_string(src))
    except CxxParseError as e:
        bad.append(("ERR", k1, a1, k2, a2, str(e)[-50:]))
        continue
    for i, (k, a) in (("1", (k1, a1)), ("2", (k2, a2))):
        kind, arr = k, a
        g = got.get("X" + i)
        doc_ok_kinds_trailing = {"var"}  # statement: trailing only for variables, fields, enumerators
        if arr in ("above", "block"):
            want = ("/// DOC" + i) if arr == "above" else ("/** DOC" + i + " */")
        elif arr == "trailing" and kind in doc_ok_kinds_trailing:
            want = "///< DOC" + i
        else:
            want = None
        if g != want:
            bad.append(("DOC", k1, a1, k2, a2, f"X{i}: got {g!r} want {want!r}"))
print("cases", n, "bad", len(bad))
import collections

c = collections.Counter((b[0],) + ((b[1], b[2]) if b[5].startswith("X1") else (b[3], b[4])) + (b[5][4:40],) for b in bad)
for k, v in c.most_common(40):
    print(v, k)
