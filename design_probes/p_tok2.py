import typing
from typing import List, Tuple
from cxxheaderparser import lexer
from cxxheaderparser.lexer import TokenStream, LexToken, Location
from cxxheaderparser._ply import lex as plylex
from cxxheaderparser.errors import CxxParseError
from cxxheaderparser.parser import CxxParser
from cxxheaderparser.simple import SimpleCxxVisitor, ParsedData

TYPES = ("NAME", "int", "*", "&", "(", ")", ",", ";", "{", "}", "const", "struct", "=", "INT_CONST_DEC", "[", "]")


def mk(ty: str, i: int):
    t = plylex.LexToken()
    t.type = ty
    if ty == "NAME":
        t.value = "a"
    elif ty == "INT_CONST_DEC":
        t.value = "1"
    else:
        t.value = ty
    t.lineno = 1
    t.lexpos = i
    t.location = Location("f", 1)
    return t


class SymStream(TokenStream):
    def __init__(self, types: List[str]):
        self.types = types
        self.pos = 0
        self.tokbuf = typing.Deque[LexToken]()

    def _fill_tokbuf(self, tokbuf):
        if self.pos >= len(self.types):
            return False
        tokbuf.append(mk(self.types[self.pos], self.pos))
        self.pos += 1
        return True

    def current_location(self):
        return Location("f", 1)

    def get_doxygen(self):
        return None

    def get_doxygen_after(self):
        return None


def mkparser(types: List[str]):
    v = SimpleCxxVisitor()
    p = CxxParser("f", "", v, None)
    p.lex = SymStream(types)
    return p, v


def _discard(t0: str, t1: str, t2: str, t3: str, t4: str, t5: str) -> int:
    """
    pre: t0 in TYPES and t1 in TYPES and t2 in TYPES and t3 in TYPES and t4 in TYPES and t5 in TYPES
    post: True
    raises: EOFError
    """
    p, v = mkparser([t0, t1, t2, t3, t4, t5])
    p._discard_contents("{", "}")
    return p.lex.pos


def _discard_bug(t0: str, t1: str, t2: str, t3: str, t4: str, t5: str) -> int:
    """
    pre: t0 in TYPES and t1 in TYPES and t2 in TYPES and t3 in TYPES and t4 in TYPES and t5 in TYPES
    post: _ != 5
    raises: EOFError
    """
    p, v = mkparser([t0, t1, t2, t3, t4, t5])
    p._discard_contents("{", "}")
    return p.lex.pos


def _parse(t0: str, t1: str, t2: str, t3: str, t4: str) -> bool:
    """
    pre: t0 in TYPES and t1 in TYPES and t2 in TYPES and t3 in TYPES and t4 in TYPES
    post: _
    raises: CxxParseError
    """
    p, v = mkparser([t0, t1, t2, t3, t4])
    p.parse()
    return True
