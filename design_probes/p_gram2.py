from crosshair.tracers import NoTracing
from p_gram import pick, count, DECLS
from cxxheaderparser.simple import parse_string


def _concat(a: int, b: int, c: int) -> bool:
    """
    pre: 0 <= a < 10 and 0 <= b < 10 and 0 <= c < 10
    post: _
    """
    sa, sb, sc = pick(a), pick(b), pick(c)
    with NoTracing():
        d = parse_string(sa + "\n" + sb + "\n" + sc)
        return count(d) >= 1
