from p_line2 import _line as real


def _twin(L: int, N: int, d: int, off0: int, form: bool) -> bool:
    """
    pre: L >= 1 and 0 <= N < 100000 and d >= 1
    post: not _
    """
    return real(L, N, d, off0, form)
