"""C05-style harness: block tree chosen by ints, one symbolic bool per block consumed when its start fires."""
import collections
import time
import typing
from crosshair.tracers import NoTracing
from cxxheaderparser.errors import CxxParseError
from cxxheaderparser.parser import CxxParser
from cxxheaderparser.simple import SimpleCxxVisitor

STARTS = {"on_namespace_start", "on_class_start", "on_extern_block_start"}
ENDS = {"on_namespace_end", "on_class_end", "on_extern_block_end"}
ALL = [
    "on_parse_start", "on_pragma", "on_include", "on_extern_block_start", "on_extern_block_end",
    "on_namespace_start", "on_namespace_end", "on_namespace_alias", "on_concept", "on_forward_decl",
    "on_template_inst", "on_variable", "on_function", "on_method_impl", "on_typedef", "on_using_namespace",
    "on_using_alias", "on_using_declaration", "on_enum", "on_class_start", "on_class_field",
    "on_class_friend", "on_class_method", "on_class_end", "on_deduction_guide",
]


class Rec:
    def __init__(self, skips):
        self.skips = skips  # list of bools (symbolic), consumed in start order
        self.nstart = 0
        self.events = []
        self.skipped_at = []  # event index where a skip was decided

    def __getattr__(self, name):
        if name not in ALL:
            raise AttributeError(name)

        def cb(state, *payload):
            self.events.append((name, id(state)))
            if name in STARTS:
                i = self.nstart
                self.nstart += 1
                if i < len(self.skips) and self.skips[i]:
                    self.skipped_at.append(len(self.events) - 1)
                    return False
            return None

        return cb


# three shapes of 3 blocks with declarations around
SHAPES = [
    "int a; namespace N { int b; struct S { int c; } s; int d; } int e;",
    "extern \"C\" { int b; namespace M { int c; } } struct T { struct U { int x; }; int y; }; int e;",
    "namespace A { namespace B { namespace C { int c; } int b; } int a; } typedef struct { int q; } Q; int e;",
]


def run(shape: int, skips):
    v = Rec(skips)
    with NoTracing():
        p = CxxParser("f", SHAPES[shape], v, None)
    p.parse()
    return v


def expected(full_events, skip_flags):
    """remove subtrees of skipped blocks (keep the start event itself) from the unskipped stream"""
    out = []
    depth_skip = 0
    nstart = 0
    stack = []
    for name, sid in full_events:
        if depth_skip:
            if name in STARTS:
                stack.append(True)
                depth_skip += 1
            elif name in ENDS:
                stack.pop()
                depth_skip -= 1
            continue
        if name in STARTS:
            out.append(name)
            i = nstart
            nstart += 1
            if i < len(skip_flags) and skip_flags[i]:
                depth_skip = 1
                stack.append(True)
            else:
                stack.append(False)
            continue
        if name in ENDS:
            stack.pop()
        out.append(name)
    return out


def _skip(shape: int, s0: bool, s1: bool, s2: bool) -> bool:
    """
    pre: 0 <= shape < 3
    post: _
    """
    sh = 0
    while sh < 2:
        if shape == sh:
            break
        sh += 1
    full = run(sh, [False, False, False])
    got = run(sh, [s0, s1, s2])
    # skip flags index the starts *delivered*, so map them onto the full stream's start order
    return [n for n, _ in got.events] == expected_delivered(full.events, [s0, s1, s2])


def expected_delivered(full_events, flags):
    """flags are consumed in order of *delivered* start callbacks"""
    out = []
    k = 0
    skipping = 0
    for name, sid in full_events:
        if skipping:
            if name in STARTS:
                skipping += 1
            elif name in ENDS:
                skipping -= 1
            continue
        out.append(name)
        if name in STARTS:
            f = flags[k] if k < len(flags) else False
            k += 1
            if f:
                skipping = 1
    return out


if __name__ == "__main__":
    import z3
    from crosshair.core_and_libs import analyze_function, run_checkables
    from crosshair.options import AnalysisOptionSet

    stats = collections.Counter()
    zt = [0.0, 0]
    orig = z3.Solver.check

    def chk(self, *a):
        t = time.perf_counter()
        r = orig(self, *a)
        zt[0] += time.perf_counter() - t
        zt[1] += 1
        return r

    z3.Solver.check = chk
    t0 = time.time()
    cks = analyze_function(_skip, AnalysisOptionSet(per_condition_timeout=120, stats=stats))
    msgs = run_checkables(cks)
    for m in msgs:
        print(m.state, m.message)
    print("paths", stats["num_paths"], "z3 checks", zt[1], "z3 time %.2fs" % zt[0], "wall %.1fs" % (time.time() - t0))
