import typing
from typing import List, Tuple
from crosshair.tracers import NoTracing
from cxxheaderparser.lexer import TokenStream, LexToken, Location
from cxxheaderparser._ply import lex as plylex
from cxxheaderparser.errors import CxxParseError
from cxxheaderparser.parser import CxxParser
from cxxheaderparser.simple import SimpleCxxVisitor, ParsedData


def mk(ty, va, line):
    t = plylex.LexToken()
    t.type = ty
    t.value = va
    t.lineno = line
    t.lexpos = 0
    t.location = Location("f", line)
    return t


class ListStream(TokenStream):
    def __init__(self, toks):
        self.toks = toks
        self.pos = 0
        self.tokbuf = typing.Deque[LexToken]()

    def _fill_tokbuf(self, tokbuf):
        if self.pos >= len(self.toks):
            return False
        tokbuf.append(self.toks[self.pos])
        self.pos += 1
        return True

    def current_location(self):
        if self.tokbuf:
            return self.tokbuf[0].location
        return Location("f", 0)

    def get_doxygen(self):
        return None

    def get_doxygen_after(self):
        return None


class Rec(SimpleCxxVisitor):
    def __init__(self):
        self.locs = []

    def on_class_method(self, state, method):
        self.locs.append(state.location.lineno)
        super().on_class_method(state, method)

    def on_class_field(self, state, f):
        self.locs.append(state.location.lineno)
        super().on_class_field(state, f)


def _lines(l0: int, l1: int, l2: int, l3: int) -> bool:
    """
    pre: 1 <= l0 <= l1 <= l2 <= l3
    post: _
    """
    with NoTracing():
        v = Rec()
        p = CxxParser("f", "", v, None)
    toks = [
        mk("struct", "struct", l0), mk("NAME", "A", l0), mk("{", "{", l0),
        mk("int", "int", l1), mk("NAME", "x", l1), mk(";", ";", l1),
        mk("void", "void", l2), mk("NAME", "f", l2), mk("(", "(", l2), mk(")", ")", l2), mk(";", ";", l2),
        mk("}", "}", l3), mk(";", ";", l3),
    ]
    p.lex = ListStream(toks)
    p.parse()
    return v.locs == [l1, l2]


def _ctor(a: str, b: str) -> bool:
    """
    pre: len(a) == 1 and len(b) == 1
    pre: a in ("A", "B", "C") and b in ("A", "B", "C")
    post: _
    raises: CxxParseError
    """
    with NoTracing():
        v = Rec()
        p = CxxParser("f", "", v, None)
    toks = [
        mk("struct", "struct", 1), mk("NAME", a, 1), mk("{", "{", 1),
        mk("NAME", b, 2), mk("(", "(", 2), mk(")", ")", 2), mk(";", ";", 2),
        mk("}", "}", 3), mk(";", ";", 3),
    ]
    p.lex = ListStream(toks)
    p.parse()
    ms = v.data.namespace.classes[0].methods
    return len(ms) == 1 and ms[0].constructor == (a == b)
