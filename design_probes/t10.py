"""survey: C14 value positions x expressions (concrete)"""
from cxxheaderparser.simple import parse_string
from cxxheaderparser.errors import CxxParseError
from cxxheaderparser.lexer import LexerTokenStream

EXPRS = [
    "1",
    "a + b",
    "f(a, b)",
    "(a < b)",
    "(a > b)",
    "N<int, 3>::value",
    "std::is_same<T, U<V>>::value",
    "T{1, 2}",
    "a[1]",
    "a[b[0]]",
    "sizeof(int)",
    "x ? y : z",
    "'}'",
    "\")\"",
    "(1, 2)",
    "a << 2",
    "a >> 2",
    "{ {1, 2}, {3} }",
    "nullptr",
    "-1",
    "&x",
    "a && b",
]


def toks(e):
    ls = LexerTokenStream("f", e)
    out = []
    while True:
        t = ls.token_eof_ok()
        if not t:
            return out
        out.append(t.value)


POS = {
    "var_init": ("int v = {e}; int after;", lambda d: d.namespace.variables[0].value.tokens),
    "var_brace": ("int v{{{e}}}; int after;", None),
    "default_arg": ("void f(int p = {e}, int q = 2); int after;", lambda d: d.namespace.functions[0].parameters[0].default.tokens),
    "array_size": ("int v[{e}]; int after;", lambda d: d.namespace.variables[0].type.size.tokens),
    "enum_value": ("enum E {{ A = {e}, B }}; int after;", lambda d: d.namespace.enums[0].values[0].value.tokens),
    "tmpl_default": ("template <int N = {e}> struct S {{}}; int after;", lambda d: d.namespace.classes[0].class_decl.template.params[0].default.tokens),
    "noexcept_fn": ("void f() noexcept({e}); int after;", lambda d: d.namespace.functions[0].noexcept.tokens),
    "noexcept_m": ("struct S {{ void f() noexcept({e}); }}; int after;", lambda d: d.namespace.classes[0].methods[0].noexcept.tokens),
    "throw_fn": ("void f() throw({e}); int after;", lambda d: d.namespace.functions[0].throw.tokens),
    "throw_m": ("struct S {{ void f() throw({e}); }}; int after;", lambda d: d.namespace.classes[0].methods[0].throw.tokens),
    "decltype": ("decltype({e}) v; int after;", lambda d: d.namespace.variables[0].type.typename.segments[0].tokens),
    "field_init": ("struct S {{ int m = {e}; int n; }}; int after;", lambda d: d.namespace.classes[0].fields[0].value.tokens),
    "concept": ("template <class T> concept C = {e}; int after;", lambda d: d.namespace.concepts[0].raw_constraint.tokens),
    "tmpl_arg": ("X<{e}> v; int after;", None),
    "pragma": ("#pragma foo {e}\nint after;", lambda d: d.pragmas[0].content.tokens),
    "requires_fn": ("template <class T> void f() requires ({e}); int after;", lambda d: d.namespace.functions[0].raw_requires.tokens),
}

import collections

res = collections.defaultdict(list)
for pn, (tmpl, get) in POS.items():
    if get is None:
        continue
    for e in EXPRS:
        src = tmpl.format(e=e)
        want = toks(e)
        if pn == "pragma":
            want = ["foo"] + want
        if pn == "requires_fn":
            want = ["("] + want + [")"]
        try:
            d = parse_string(src)
            got = [t.value for t in get(d)]
            after_ok = any(v.name.segments[-1].name == "after" for v in d.namespace.variables)
            if got != want:
                res[pn].append((e, "GOT " + " ".join(got)))
            elif not after_ok:
                res[pn].append((e, "AFTER LOST"))
        except CxxParseError as ex:
            res[pn].append((e, "ERR " + str(ex)[-45:]))
        except Exception as ex:
            res[pn].append((e, "EXC " + type(ex).__name__))
for pn in POS:
    if POS[pn][1] is None:
        continue
    print(f"{pn:14s} bad {len(res[pn])}/{len(EXPRS)}")
    for x in res[pn]:
        print("      ", x)
