from typing import List
from p_filt import FakeIO


def _gcc_filter_fixed(fname, fp):
    new_output = FakeIO()
    keep = True
    fname = fname.replace("\\", "\\\\")
    fname = '"' + fname

    for line in fp:
        if line.startswith("# "):
            last_quote = line.rfind('"')
            if last_quote != -1:
                keep = line[:last_quote].endswith(fname)

        if keep:
            new_output.write(line)

    new_output.seek(0)
    return new_output.read()


def _gcc(f: str, g: str) -> bool:
    """
    pre: 1 <= len(f) <= 3 and 1 <= len(g) <= 4
    pre: all(c in "ab/." for c in f) and all(c in "ab/." for c in g)
    post: _
    """
    lines = ['# 1 "' + g + '"\n', "int x;\n"]
    out = _gcc_filter_fixed(f, iter(lines))
    kept = len(out) == 2
    return kept == (g == f)
