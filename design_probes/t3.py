import os, tempfile, pathlib
from cxxheaderparser.simple import parse_file
from cxxheaderparser.options import ParserOptions
from cxxheaderparser import preprocessor

d = pathlib.Path(tempfile.mkdtemp())
(d / "xmain.h").write_text("int from_inc;\n")
(d / "main.h").write_text('#include "xmain.h"\nint from_main;\n')
os.chdir(d)
for name, mk in (("gcc", preprocessor.make_gcc_preprocessor), ("pcpp", preprocessor.make_pcpp_preprocessor)):
    for path in ("main.h", str(d / "main.h")):
        kw = dict(include_paths=[str(d)])
        if name == "gcc":
            kw["print_cmd"] = False
        pp = mk(**kw)
        data = parse_file(path, options=ParserOptions(preprocessor=pp))
        print(name, path, [v.name.segments[-1].name for v in data.namespace.variables])
