"""Prototype 4: C16 query with the real spacing table and literal fall-through; solver picks the class pair."""
import sys
import time
import z3
from rx2 import ZDom, Comp, master_of, first_rule
from cxxheaderparser.lexer import PlyLexer
from cxxheaderparser import tokfmt as tf

N = int(sys.argv[1]) if len(sys.argv) > 1 else 4
lx = PlyLexer("f")
master, names, rules = master_of(lx)
name_idx = {nm: i for i, (nm, _) in enumerate(rules)}
literals = lx.lex.lexliterals
LIT = 1000
ERR = -1
skip = {"t_UNMATCHED_QUOTE", "t_BAD_CHAR_CONST", "t_BAD_STRING_LITERAL", "t_BAD_CONST_OCT", "t_PP_DIRECTIVE",
        "t_WHITESPACE", "t_NEWLINE", "t_COMMENT_SINGLELINE", "t_COMMENT_MULTILINE", "t_PRAGMA_DIRECTIVE",
        "t_INCLUDE_DIRECTIVE"}
ws = tf._want_spacing


def tok_at(comp, i):
    """(kind, end): kind = rule idx | LIT | ERR"""
    rule, end = first_rule(comp, rules, i)
    ch = comp.d.c[i]
    is_lit = z3.Or([ch == ord(x) for x in literals])
    kind = z3.If(rule >= 0, rule, z3.If(is_lit, LIT, ERR))
    end = z3.If(rule >= 0, end, z3.If(is_lit, i + 1, -1))
    return kind, end


def spacing(kind, ch0):
    """(l, r) z3 ints for a piece of this kind (NAME rule: keywords share NAME's row except `operator`, too long here)"""
    l = z3.IntVal(0)
    r = z3.IntVal(0)
    for nm, idx in name_idx.items():
        ty = nm[2:]
        row = ws.get(ty, (0, 0))
        if row != (0, 0):
            l = z3.If(kind == idx, row[0], l)
            r = z3.If(kind == idx, row[1], r)
    for x in literals:
        row = ws.get(x, (0, 0))
        if row != (0, 0):
            l = z3.If(z3.And(kind == LIT, ch0 == ord(x)), row[0], l)
            r = z3.If(z3.And(kind == LIT, ch0 == ord(x)), row[1], r)
    return l, r


t0 = time.time()
zd = ZDom(N)
whole = Comp(zd)
s = z3.Solver()
for ch in zd.c:
    s.add(ch >= 32, ch <= 126)  # printable ascii for readability of the probe
found = []
nq = 0
for p in range(1, N):
    za = ZDom(p); za.c = zd.c[:p]
    zb = ZDom(N - p); zb.c = zd.c[p:]
    ka, ea = tok_at(Comp(za), 0)
    kb, eb = tok_at(Comp(zb), 0)
    k0, e0 = tok_at(whole, 0)
    kp, ep = tok_at(whole, p)
    la, ra = spacing(ka, zd.c[0])
    lb, rb = spacing(kb, zd.c[p])
    s.push()
    s.add(ea == p, eb == N - p, ka != ERR, kb != ERR)
    for nm in skip:
        s.add(ka != name_idx[nm], kb != name_idx[nm])
    s.add(ra + lb < 3)  # tokfmt emits no space
    s.add(z3.Not(z3.And(k0 == ka, e0 == p, kp == kb, ep == N)))
    while True:
        nq += 1
        r = s.check()
        if str(r) != "sat":
            break
        m = s.model()
        w = "".join(chr(m.eval(ch, model_completion=True).as_long()) for ch in zd.c)
        A, B = m.eval(ka).as_long(), m.eval(kb).as_long()
        found.append((w[:p], w[p:], A, B))
        # block this class pair (for literals: the concrete chars)
        blk = [ka == A, kb == B]
        if A == LIT:
            blk.append(zd.c[0] == ord(w[0]))
        if B == LIT:
            blk.append(zd.c[p] == ord(w[p]))
        s.add(z3.Not(z3.And(blk)))
    s.pop()
print(f"n={N}: {nq} queries, {len(found)} fusing class pairs, {time.time()-t0:.1f}s")


def nm(k):
    return "LIT" if k == LIT else rules[k][0][2:]


# replay each on the real lexer + tokfmt
from cxxheaderparser.lexer import LexerTokenStream


def lex(sx):
    ls = LexerTokenStream("f", sx)
    out = []
    while True:
        t = ls.token_eof_ok()
        if t is None:
            return out
        out.append(tf.Token(t.value, t.type))


ok = 0
for a, b, A, B in found:
    try:
        ta, tb = lex(a), lex(b)
        fmt = tf.tokfmt(ta + tb)
        back = lex(fmt)
        rep = [t.value for t in back] != [a, b]
    except Exception as e:
        rep = f"EXC {type(e).__name__}"
    ok += rep is True
    print(f"  {a!r:8} {b!r:8} {nm(A):16} {nm(B):16} fmt={fmt!r:10} reproduces={rep}")
print("reproduced", ok, "of", len(found))
