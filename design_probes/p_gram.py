"""grammar-directed harness through the REAL lexer: choice ints -> concrete text per path"""
from typing import List
from cxxheaderparser.errors import CxxParseError
from cxxheaderparser.simple import parse_string, ParsedData

DECLS = [
    "int a;",
    "const int * b = 1;",
    "void f(int x);",
    "struct S { int m; };",
    "namespace N { int z; }",
    "typedef int T;",
    "using U = int;",
    "enum E { A, B = 2 };",
    "template <typename X> X g(X);",
    "extern \"C\" { int q; }",
]


def pick(k: int) -> str:
    n = len(DECLS)
    j = 0
    while j < n - 1:
        if k == j:
            break
        j += 1
    return DECLS[j]


def count(d: ParsedData) -> int:
    ns = d.namespace
    return (
        len(ns.variables)
        + len(ns.functions)
        + len(ns.classes)
        + len(ns.typedefs)
        + len(ns.using_alias)
        + len(ns.enums)
        + len(ns.namespaces)
    )


def _concat(a: int, b: int, c: int) -> bool:
    """
    pre: 0 <= a < 10 and 0 <= b < 10 and 0 <= c < 10
    post: _
    """
    sa, sb, sc = pick(a), pick(b), pick(c)
    d = parse_string(sa + "\n" + sb + "\n" + sc)
    return count(d) >= 1
