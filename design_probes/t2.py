import time
from p_lex import lex_all

for fam in ("/*" + "{x}", "/*" + "{x}" + "*", ):
    for k in (10, 16, 18, 20, 22, 24):
        s = fam.replace("{x}", "\n" * k)
        t = time.time()
        r = "ok"
        try:
            lex_all(s)
        except Exception as e:
            r = type(e).__name__
        print(repr(fam), k, round(time.time() - t, 3), r, flush=True)
