"""Prototype 6: backtracking step count as an SMT term; maximise it for growing n."""
import sys
import time
import z3
import re._constants as sc
from rx2 import ZDom, Comp, master_of
from cxxheaderparser.lexer import PlyLexer


class StepComp(Comp):
    """run2(cont,i) -> (result, steps)"""

    def __init__(self, dom):
        super().__init__(dom)
        self.m2 = {}

    def run2(self, cont, i):
        key = (cont, i)
        r = self.m2.get(key)
        if r is None:
            r = self._run2(cont, i)
            self.m2[key] = r
        return r

    def _run2(self, cont, i):
        d = self.d
        kind = cont[0]
        if kind == "end":
            return i, 0
        if kind == "rep":
            _, nid, done, istart, parent = cont
            node = self.items_by_id[nid]
            if i == istart:
                return self.run2(parent, i)
            return self.rep2(node, done, i, parent)
        _, iid, k, parent = cont
        items = self.items_by_id[iid]
        if k == len(items):
            return self.run2(parent, i)
        op, av = items[k]
        nxt = ("seq", iid, k + 1, parent)
        if op in (sc.LITERAL, sc.NOT_LITERAL, sc.ANY, sc.IN):
            if i >= self.n:
                return -1, 1
            p = self.pred(d.ch(i), op, av)
            r, s = self.run2(nxt, i + 1)
            return d.ite(p, r, -1), 1 + d.ite(p, s, 0)
        if op is sc.SUBPATTERN:
            return self.run2(self.seq(av[3], 0, nxt), i)
        if op is sc.BRANCH:
            res, steps = -1, 0
            # evaluate in order: steps accumulate while previous alternatives failed
            alts = [self.run2(self.seq(alt, 0, nxt), i) for alt in av[1]]
            failed_all = True
            for r, s in alts:
                steps = steps + d.ite(failed_all, s, 0)
                ok = d.ge0(r) if not isinstance(r, int) else (r >= 0)
                res = d.ite(z3.And(failed_all, ok) if failed_all is not True else ok, r, res)
                failed_all = z3.And(failed_all, z3.Not(ok)) if failed_all is not True else (z3.Not(ok) if not isinstance(ok, bool) else (not ok))
            return res, steps
        if op in (sc.MAX_REPEAT, sc.MIN_REPEAT):
            node = items[k]
            self.items_by_id[id(node)] = node
            return self.rep2(node, 0, i, nxt)
        if op is sc.AT:
            if av is sc.AT_END:
                if i == self.n:
                    return self.run2(nxt, i)
                if i == self.n - 1:
                    r, s = self.run2(nxt, i)
                    c = d.eq(d.ch(i), 10)
                    return d.ite(c, r, -1), 1 + d.ite(c, s, 0)
                return -1, 1
            if av is sc.AT_BEGINNING:
                return self.run2(nxt, i) if i == 0 else (-1, 1)
            raise NotImplementedError(av)
        if op in (sc.ASSERT, sc.ASSERT_NOT):
            r, s = self.run2(self.seq(av[1], 0, ("end",)), i)
            ok = d.ge0(r) if not isinstance(r, int) else (r >= 0)
            if op is sc.ASSERT_NOT:
                ok = d.not_(ok)
            r2, s2 = self.run2(nxt, i)
            return d.ite(ok, r2, -1), s + d.ite(ok, s2, 0)
        raise NotImplementedError(op)

    def rep2(self, node, done, i, parent):
        d = self.d
        op, (lo, hi, body) = node
        unb = hi is sc.MAXREPEAT
        more = (-1, 0)
        if unb or done < hi:
            nd = min(done + 1, lo) if unb else done + 1
            more = self.run2(self.seq(body, 0, ("rep", id(node), nd, i, parent)), i)
        stop = self.run2(parent, i) if done >= lo else (-1, 0)
        first, second = (more, stop) if op is sc.MAX_REPEAT else (stop, more)
        r1, s1 = first
        r2, s2 = second
        if isinstance(r1, int) and r1 == -1:
            return r2, 1 + s1 + s2
        ok = d.ge0(r1)
        return d.ite(ok, r1, r2), 1 + s1 + d.ite(ok, 0, s2)


if __name__ == "__main__":
    lx = PlyLexer("f")
    master, names, rules = master_of(lx)
    only = sys.argv[2] if len(sys.argv) > 2 else None
    for n in [int(x) for x in sys.argv[1].split(",")]:
        zd = ZDom(n)
        sc_ = StepComp(zd)
        t0 = time.time()
        total = 0
        failed = True
        for nm, a in rules:
            if only and nm != only:
                continue
            r, s = sc_.run2(sc_.seq(a, 0, ("end",)), 0)
            if only:
                total = s
                continue
            total = total + z3.If(failed, s, 0) if failed is not True else total + s
            ok = r >= 0 if not isinstance(r, int) else (r >= 0)
            if isinstance(ok, bool):
                if ok:
                    break
                continue
            failed = z3.And(failed, z3.Not(ok)) if failed is not True else z3.Not(ok)
        o = z3.Optimize()
        o.set("timeout", 120000)
        for ch in zd.c:
            o.add(ch >= 0, ch <= 0x10FFFF)
        h = o.maximize(total)
        r = o.check()
        val = o.upper(h)
        w = ""
        if str(r) == "sat":
            m = o.model()
            w = "".join(chr(m.eval(ch, model_completion=True).as_long()) for ch in zd.c)
        print(f"n={n} max steps={val} ({r}) witness={w!r} {time.time()-t0:.1f}s", flush=True)
