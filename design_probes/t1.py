import sys
from p_lex import lex_all
for s in sys.argv[1:]:
    s = s.encode().decode("unicode_escape")
    try:
        print(repr(s), lex_all(s))
    except Exception as e:
        print(repr(s), type(e).__name__, e)
