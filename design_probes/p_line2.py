"""C10 arithmetic with CrossHair on the REAL t_PP_DIRECTIVE + _line_re + current_location."""
from crosshair.tracers import NoTracing
from cxxheaderparser import lexer as lexmod
from cxxheaderparser._ply import lex as plylex


def _line(L: int, N: int, d: int, off0: int, form: bool) -> bool:
    """
    pre: L >= 1 and 0 <= N < 100000 and d >= 1
    post: _
    """
    with NoTracing():
        lx = lexmod.PlyLexer("orig.h")
    lx.line_offset = off0
    lx.lex.lineno = L
    t = plylex.LexToken()
    t.type = "PP_DIRECTIVE"
    t.value = ("#line " if form else "# ") + str(N) + ' "inc/other.h"'
    t.lineno = L
    t.lexpos = 0
    r = lx.t_PP_DIRECTIVE(t)
    lx.lex.lineno = L + d
    loc = lx.current_location()
    return r is None and loc.filename == "inc/other.h" and loc.lineno == N + d - 1
