import typing
from typing import List, Tuple
from cxxheaderparser import lexer
from cxxheaderparser.lexer import TokenStream, LexToken, Location
from cxxheaderparser._ply import lex as plylex
from cxxheaderparser.errors import CxxParseError
from cxxheaderparser.parser import CxxParser
from cxxheaderparser.simple import SimpleCxxVisitor, ParsedData

# alphabet: (type, value)
ALPHA = [
    ("NAME", "a"),
    ("NAME", "b"),
    ("int", "int"),
    ("*", "*"),
    ("&", "&"),
    ("(", "("),
    (")", ")"),
    (",", ","),
    (";", ";"),
    ("{", "{"),
    ("}", "}"),
    ("const", "const"),
    ("struct", "struct"),
    ("=", "="),
    ("INT_CONST_DEC", "1"),
    ("[", "["),
    ("]", "]"),
]


def mk(kind: int, i: int):
    t = plylex.LexToken()
    ty, va = ALPHA[kind]
    t.type = ty
    t.value = va
    t.lineno = 1
    t.lexpos = i
    t.location = Location("f", 1)
    return t


class SymStream(TokenStream):
    def __init__(self, kinds: List[int]):
        self.kinds = kinds
        self.pos = 0
        self.tokbuf = typing.Deque[LexToken]()

    def _fill_tokbuf(self, tokbuf):
        if self.pos >= len(self.kinds):
            return False
        k = self.kinds[self.pos]
        # fork over concrete kinds
        for j in range(len(ALPHA)):
            if k == j:
                tokbuf.append(mk(j, self.pos))
                break
        self.pos += 1
        return True

    def current_location(self):
        return Location("f", 1)

    def get_doxygen(self):
        return None

    def get_doxygen_after(self):
        return None


def run(kinds: List[int]) -> ParsedData:
    v = SimpleCxxVisitor()
    p = CxxParser("f", "", v, None)
    p.lex = SymStream(kinds)
    p.parse()
    return v.data


def _prop(k0: int, k1: int, k2: int, k3: int, k4: int) -> bool:
    """
    pre: 0 <= k0 < 17 and 0 <= k1 < 17 and 0 <= k2 < 17 and 0 <= k3 < 17 and 0 <= k4 < 17
    post: _
    raises: CxxParseError
    """
    d = run([k0, k1, k2, k3, k4])
    return True


def _prop_bug(k0: int, k1: int, k2: int, k3: int, k4: int) -> bool:
    """
    pre: 0 <= k0 < 17 and 0 <= k1 < 17 and 0 <= k2 < 17 and 0 <= k3 < 17 and 0 <= k4 < 17
    post: _
    raises: CxxParseError
    """
    d = run([k0, k1, k2, k3, k4])
    # bogus claim: never two variables
    return len(d.namespace.variables) < 2
