import typing
from typing import List, Tuple
from cxxheaderparser.lexer import TokenStream, LexToken, Location
from cxxheaderparser._ply import lex as plylex
from cxxheaderparser.errors import CxxParseError
from cxxheaderparser.parser import CxxParser
from cxxheaderparser.simple import SimpleCxxVisitor, ParsedData

LOC = Location("f", 1)


def mk(ty: str, va: str, i: int):
    t = plylex.LexToken()
    t.type = ty
    t.value = va
    t.lineno = 1
    t.lexpos = i
    t.location = LOC
    return t


class SymStream(TokenStream):
    """tokens drawn lazily: kind ints are only forked on when the parser pulls them"""

    def __init__(self, kinds: List[int], alpha):
        self.kinds = kinds
        self.alpha = alpha
        self.pos = 0
        self.tokbuf = typing.Deque[LexToken]()

    def _fill_tokbuf(self, tokbuf):
        if self.pos >= len(self.kinds):
            return False
        k = self.kinds[self.pos]
        alpha = self.alpha
        n = len(alpha)
        j = 0
        # linear fork chain
        while j < n - 1:
            if k == j:
                break
            j += 1
        ty, va = alpha[j]
        tokbuf.append(mk(ty, va, self.pos))
        self.pos += 1
        return True

    def current_location(self):
        return LOC

    def get_doxygen(self):
        return None

    def get_doxygen_after(self):
        return None


A3 = [("{", "{"), ("}", "}"), ("NAME", "a")]


def mkparser(kinds: List[int], alpha):
    v = SimpleCxxVisitor()
    p = CxxParser("f", "", v, None)
    p.lex = SymStream(kinds, alpha)
    return p, v


def ref_close(kinds: List[int]) -> int:
    level = 1
    for i, k in enumerate(kinds):
        if k == 0:
            level += 1
        elif k == 1:
            level -= 1
            if level == 0:
                return i + 1
    return -1


def _discard(kinds: List[int]) -> int:
    """
    pre: len(kinds) == 8
    pre: all(0 <= k < 3 for k in kinds)
    post: _ == ref_close(kinds)
    """
    p, v = mkparser(kinds, A3)
    try:
        p._discard_contents("{", "}")
    except EOFError:
        return -1
    return p.lex.pos
