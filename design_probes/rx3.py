"""Prototype 3: ambiguity of unbounded repeats (EDA witness search), set semantics with symbolic chars."""
import sys
import time
import z3
import re._parser as sp
import re._constants as sc
from rx2 import ZDom, Comp, master_of


def OR(xs):
    xs = [x for x in xs if x is not False]
    if any(x is True for x in xs):
        return True
    if not xs:
        return False
    return z3.Or(xs) if len(xs) > 1 else xs[0]


def AND(*xs):
    xs = [x for x in xs if x is not True]
    if any(x is False for x in xs):
        return False
    if not xs:
        return True
    return z3.And(xs) if len(xs) > 1 else xs[0]


class Amb:
    """ends(src,k,i) -> ({e: cond}, {e: ambcond})"""

    def __init__(self, comp):
        self.c = comp  # for char predicates
        self.n = comp.n
        self.memo = {}
        self.keep = []
        self.stars = []  # (node, i, e, cond)

    def seq(self, src, k, i):
        key = (id(src), k, i)
        r = self.memo.get(key)
        if r is not None:
            return r
        self.keep.append(src)
        items = list(src)
        if k == len(items):
            r = ({i: True}, {})
        else:
            e1, a1 = self.one(items[k], i)
            ends, amb = {}, {}
            srcs = {}
            for m, c1 in e1.items():
                e2, a2 = self.seq(src, k + 1, m)
                for e, c2 in e2.items():
                    c = AND(c1, c2)
                    srcs.setdefault(e, []).append(c)
                    parts = []
                    if m in a1:
                        parts.append(AND(a1[m], c2))
                    if e in a2:
                        parts.append(AND(c1, a2[e]))
                    if parts:
                        amb.setdefault(e, []).extend(parts)
            for e, cs in srcs.items():
                ends[e] = OR(cs)
                pair = [AND(cs[x], cs[y]) for x in range(len(cs)) for y in range(x + 1, len(cs))]
                allp = amb.get(e, []) + pair
                a = OR(allp)
                if a is not False:
                    amb[e] = a
                elif e in amb:
                    del amb[e]
            amb = {e: (OR(v) if isinstance(v, list) else v) for e, v in amb.items()}
            r = (ends, amb)
        self.memo[key] = r
        return r

    def one(self, item, i):
        op, av = item
        n = self.n
        if op in (sc.LITERAL, sc.NOT_LITERAL, sc.ANY, sc.IN):
            if i >= n:
                return ({}, {})
            return ({i + 1: self.c.pred(self.c.d.ch(i), op, av)}, {})
        if op is sc.SUBPATTERN:
            return self.seq(av[3], 0, i)
        if op is sc.BRANCH:
            srcs, amb = {}, {}
            for alt in av[1]:
                e, a = self.seq(alt, 0, i)
                for k, c in e.items():
                    srcs.setdefault(k, []).append(c)
                for k, c in a.items():
                    amb.setdefault(k, []).append(c)
            ends = {}
            for k, cs in srcs.items():
                ends[k] = OR(cs)
                pair = [AND(cs[x], cs[y]) for x in range(len(cs)) for y in range(x + 1, len(cs))]
                a = OR(amb.get(k, []) + pair)
                if a is not False:
                    amb[k] = a
                else:
                    amb.pop(k, None)
            amb = {k: (OR(v) if isinstance(v, list) else v) for k, v in amb.items()}
            return (ends, amb)
        if op in (sc.MAX_REPEAT, sc.MIN_REPEAT):
            lo, hi, body = av
            r = self.rep(item, 0, i)
            if hi is sc.MAXREPEAT:
                for e, c in r[1].items():
                    self.stars.append((item, i, e, c))
            return r
        if op is sc.AT:
            if av is sc.AT_END:
                if i == n:
                    return ({i: True}, {})
                if i == n - 1:
                    return ({i: self.c.d.ch(i) == 10}, {})
                return ({}, {})
            if av is sc.AT_BEGINNING:
                return ({i: True}, {}) if i == 0 else ({}, {})
            raise NotImplementedError(av)
        if op in (sc.ASSERT, sc.ASSERT_NOT):
            e, _ = self.seq(av[1], 0, i)
            anyc = OR(list(e.values()))
            if op is sc.ASSERT_NOT:
                anyc = True if anyc is False else (False if anyc is True else z3.Not(anyc))
            if anyc is False:
                return ({}, {})
            return ({i: anyc}, {})
        raise NotImplementedError(op)

    def rep(self, item, done, i):
        op, (lo, hi, body) = item
        unb = hi is sc.MAXREPEAT
        dk = min(done, lo) if unb else done
        key = ("rep", id(item), dk, i)
        r = self.memo.get(key)
        if r is not None:
            return r
        srcs, amb = {}, {}
        if done >= lo:
            srcs.setdefault(i, []).append(True)
        if unb or done < hi:
            be, ba = self.seq(body, 0, i)
            for m, c1 in be.items():
                if m == i:
                    continue
                e2, a2 = self.rep(item, done + 1, m)
                for e, c2 in e2.items():
                    srcs.setdefault(e, []).append(AND(c1, c2))
                    parts = []
                    if m in ba:
                        parts.append(AND(ba[m], c2))
                    if e in a2:
                        parts.append(AND(c1, a2[e]))
                    if parts:
                        amb.setdefault(e, []).extend(parts)
        ends = {}
        out_amb = {}
        for e, cs in srcs.items():
            ends[e] = OR(cs)
            pair = [AND(cs[x], cs[y]) for x in range(len(cs)) for y in range(x + 1, len(cs))]
            a = OR(amb.get(e, []) + pair)
            if a is not False:
                out_amb[e] = a
        r = (ends, out_amb)
        self.memo[key] = r
        return r


if __name__ == "__main__":
    N = int(sys.argv[1]) if len(sys.argv) > 1 else 5
    from cxxheaderparser.lexer import PlyLexer

    lx = PlyLexer("f")
    master, names, rules = master_of(lx)
    zd = ZDom(N)
    comp = Comp(zd)
    t0 = time.time()
    total = 0
    s = z3.Solver()
    for ch in zd.c:
        s.add(ch >= 0, ch <= 0x10FFFF)
    for nm, a in rules:
        amb = Amb(comp)
        for i in range(1):  # star ambiguity is position independent apart from end effects; start at 0
            amb.seq(a, 0, i)
        # also starts > 0 are reached through the recursion
        flagged = {}
        for item, i, e, c in amb.stars:
            if c is False:
                continue
            s.push()
            s.add(c)
            r = s.check()
            if str(r) == "sat":
                m = s.model()
                w = "".join(chr(m.eval(ch, model_completion=True).as_long()) for ch in zd.c)
                flagged.setdefault(id(item), (item, i, e, w))
            s.pop()
            total += 1
        for item, i, e, w in flagged.values():
            print(f"AMBIGUOUS repeat in {nm}: span [{i},{e}) witness {w[i:e]!r}  (full {w!r})")
    print(f"n={N} star-instances checked {total} in {time.time()-t0:.1f}s")
