from typing import List, Tuple
from cxxheaderparser.lexer import LexerTokenStream, LexError
from cxxheaderparser.errors import CxxParseError


def lex_all(s: str) -> List[Tuple[str, str]]:
    out = []
    ls = LexerTokenStream("f", s)
    while True:
        t = ls._lex.token()
        if t is None:
            break
        out.append((t.type, t.value))
    return out


def _prop_concat(s: str) -> bool:
    """
    pre: len(s) <= 3
    post: _
    raises: CxxParseError
    """
    toks = lex_all(s)
    return "".join(v for _, v in toks) == s.replace("\r", "")


def _prop_bogus(s: str) -> bool:
    """
    pre: len(s) <= 3
    post: _
    raises: CxxParseError
    """
    toks = lex_all(s)
    return not (len(toks) == 1 and toks[0][0] == "ARROW")
