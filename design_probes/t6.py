"""survey: C02 with an independent inside-out declarator printer over small type trees (concrete)."""
from cxxheaderparser.simple import parse_string
from cxxheaderparser.errors import CxxParseError
from cxxheaderparser.options import ParserOptions
from cxxheaderparser.types import *
from t5 import wrap, sig, INT


def declarator(t, inner: str) -> str:
    """print `t` around declarator text `inner` (inside-out rule); returns full declaration"""
    if isinstance(t, Type):
        c = "const " if t.const else ""
        v = "volatile " if t.volatile else ""
        return f"{c}{v}{t.typename.format()} {inner}".rstrip()
    if isinstance(t, Pointer):
        q = (" const" if t.const else "") + (" volatile" if t.volatile else "")
        s = f"*{q} {inner}" if q else f"*{inner}"
        if isinstance(t.ptr_to, (Array, FunctionType)):
            s = f"({s})"
        return declarator(t.ptr_to, s)
    if isinstance(t, Reference):
        s = f"&{inner}"
        if isinstance(t.ref_to, (Array, FunctionType)):
            s = f"({s})"
        return declarator(t.ref_to, s)
    if isinstance(t, MoveReference):
        s = f"&&{inner}"
        if isinstance(t.moveref_to, (Array, FunctionType)):
            s = f"({s})"
        return declarator(t.moveref_to, s)
    if isinstance(t, Array):
        sz = t.size.format() if t.size else ""
        return declarator(t.array_of, f"{inner}[{sz}]")
    if isinstance(t, FunctionType):
        ps = ", ".join(declarator(p.type, p.name or "") for p in t.parameters)
        return declarator(t.return_type, f"{inner}({ps})")
    raise TypeError(t)


def legal(t, top=True):
    """C++ legality of the tree (no arrays of refs/functions, no functions returning arrays/functions, no ptr/ref to ref)"""
    if isinstance(t, Type):
        return True
    if isinstance(t, Pointer):
        return not isinstance(t.ptr_to, (Reference, MoveReference)) and legal(t.ptr_to, False)
    if isinstance(t, (Reference, MoveReference)):
        inner = t.ref_to if isinstance(t, Reference) else t.moveref_to
        return not isinstance(inner, (Reference, MoveReference)) and legal(inner, False)
    if isinstance(t, Array):
        return not isinstance(t.array_of, (Reference, MoveReference, FunctionType)) and legal(t.array_of, False) and (
            not isinstance(t.array_of, Array) or t.array_of.size is not None)
    if isinstance(t, FunctionType):
        return not isinstance(t.return_type, (Array, FunctionType)) and legal(t.return_type, False)


level = [INT(), INT(const=True)]
trees = list(level)
for d in range(3):
    nxt = []
    for t in level:
        nxt.extend(wrap(t))
    trees.extend(nxt)
    level = nxt

ctxs = {
    "var": (lambda d: f"{d};", lambda r: (r.namespace.variables[0].type, r.namespace.variables[0].name.segments[-1].name)),
    "param": (lambda d: f"void f({d});", lambda r: (r.namespace.functions[0].parameters[0].type, r.namespace.functions[0].parameters[0].name)),
    "field": (lambda d: f"struct S {{ {d}; }};", lambda r: (r.namespace.classes[0].fields[0].type, r.namespace.classes[0].fields[0].name)),
    "typedef": (lambda d: f"typedef {d};", lambda r: (r.namespace.typedefs[0].type, r.namespace.typedefs[0].name)),
}
for cname, (mk, get) in ctxs.items():
    bad = {}
    tot = 0
    for t in trees:
        if isinstance(t, FunctionType) and cname != "typedef":
            continue
        if not legal(t):
            continue
        tot += 1
        src = mk(declarator(t, "x"))
        try:
            r = parse_string(src)
            try:
                ty, nm = get(r)
            except Exception as e:
                bad.setdefault("WRONG-KIND", []).append((sig(t), src))
                continue
            if ty == t and nm == "x":
                continue
            bad.setdefault("MISMATCH", []).append((sig(t), src, sig(ty) if not isinstance(ty, FunctionType) else "F.."))
        except CxxParseError as e:
            bad.setdefault("PARSE-ERR", []).append((sig(t), src, str(e)[-60:]))
    print(f"== {cname}: legal trees {tot}")
    for k, v in bad.items():
        print("  ", k, len(v))
        for x in v[:8]:
            print("      ", x)
