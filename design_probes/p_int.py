def _rt(n: int) -> bool:
    """
    pre: 0 <= n < 100000
    post: _
    """
    s = str(n)
    return int(s) == n


def _digits(s: str, L: int) -> bool:
    """
    pre: 1 <= len(s) <= 3 and s.isdecimal() and L >= 1
    post: _
    """
    n = int(s)
    off = 1 + L - n
    return (L + 1) - off == n
