import io
from typing import Optional
from crosshair.tracers import NoTracing
from cxxheaderparser import parser as parser_mod
from cxxheaderparser import simple


class FakeFile:
    def __init__(self, content):
        self.content = content

    def read(self):
        return self.content

    def __enter__(self):
        return self

    def __exit__(self, *a):
        return False


CONTENT = "int x;\n"


def _parse_file_encoding(enc: Optional[str]) -> bool:
    """
    pre: enc is None or len(enc) <= 8
    post: _
    """
    calls = []

    def fake_open(name, mode="r", encoding=None, **kw):
        calls.append((name, mode, encoding))
        return FakeFile(CONTENT)

    parser_mod.open = fake_open
    try:
        d = simple.parse_file("some.h", enc)
    finally:
        del parser_mod.open
    want = "utf-8-sig" if enc is None else enc
    return len(calls) == 1 and calls[0][0] == "some.h" and calls[0][2] == want
