from p_ind import _step as real_step


def _twin(member: int, access: str, anon0: int, line: int) -> bool:
    """
    pre: 0 <= member < 12 and anon0 >= 0 and line >= 1
    pre: len(access) <= 9
    post: not _
    raises: CxxParseError
    """
    return real_step(member, access, anon0, line)
