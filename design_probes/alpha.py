"""How many token-type classes does the parser distinguish?  signature = set of syntactic sites mentioning the string."""
import ast
import collections
from cxxheaderparser.lexer import PlyLexer

src = open("/repo/cxxheaderparser/parser.py").read()
tree = ast.parse(src)
sites = collections.defaultdict(set)


class V(ast.NodeVisitor):
    def visit_Constant(self, node):
        if isinstance(node.value, str):
            sites[node.value].add((node.lineno, node.col_offset))


# group constants by the innermost enclosing "container" expression (set/tuple/dict/call/compare)
class G(ast.NodeVisitor):
    def __init__(self):
        self.groups = collections.defaultdict(set)  # container id -> strings

    def generic_visit(self, node):
        if isinstance(node, (ast.Set, ast.Tuple, ast.List, ast.Dict, ast.Call, ast.Compare)):
            strs = set()
            for ch in ast.iter_child_nodes(node):
                if isinstance(ch, ast.Constant) and isinstance(ch.value, str):
                    strs.add(ch.value)
            if isinstance(node, ast.Dict):
                strs |= {k.value for k in node.keys if isinstance(k, ast.Constant) and isinstance(k.value, str)}
            if strs:
                self.groups[(type(node).__name__, node.lineno, node.col_offset)] = strs
        super().generic_visit(node)


g = G()
g.visit(tree)
all_types = set(PlyLexer.tokens) | set(PlyLexer.literals) | {f"UD_{t}" for t in ()}  # UD_ types are synthesised
sig = {}
for t in sorted(all_types):
    s = frozenset(k for k, strs in g.groups.items() if t in strs)
    sig[t] = s
classes = collections.defaultdict(list)
for t, s in sig.items():
    classes[s].append(t)
print("token types:", len(all_types), "classes:", len(classes))
for s, ts in sorted(classes.items(), key=lambda kv: -len(kv[1])):
    print(len(s), "sites:", ts if len(ts) < 30 else (ts[:30], "..."))
