#!/bin/sh
# Build the overlay venv the checks run in (offline, idempotent).
#   /verif/.venv = /venv's python + /venv site-packages (pytest, pcpp, ...) + /repo on sys.path
#                  + crosshair-tool (and z3-solver) from the offline wheelhouse.
set -e
HERE=$(cd "$(dirname "$0")/.." && pwd)
V="$HERE/.venv"
STAMP="$V/.ok"
if [ -f "$STAMP" ] && "$V/bin/python" -c "import crosshair, z3, cvc5, jsonschema, cxxheaderparser" >/dev/null 2>&1; then
    exit 0
fi
LOCK="$HERE/.venv.lock"
# serialise concurrent bootstraps (several checks may start at once)
exec 9>"$LOCK"
flock 9
if [ -f "$STAMP" ] && "$V/bin/python" -c "import crosshair, z3, cvc5, jsonschema, cxxheaderparser" >/dev/null 2>&1; then
    exit 0
fi
rm -rf "$V"
/venv/bin/python -m venv "$V"
SP=$("$V/bin/python" -c "import sysconfig; print(sysconfig.get_paths()['purelib'])")
printf '/venv/lib/python3.12/site-packages\n/repo\n' > "$SP/overlay.pth"
PIP_NO_INDEX=1 "$V/bin/pip" install -q --no-index --find-links /opt/veriftools/wheels crosshair-tool cvc5 jsonschema >/dev/null
"$V/bin/python" -c "import crosshair, z3, cvc5, jsonschema, cxxheaderparser; print('bootstrap ok: crosshair', crosshair.__version__ if hasattr(crosshair,'__version__') else '', 'z3', z3.get_version_string())"
touch "$STAMP"
